#!/usr/bin/env python3
"""seedtest.py <seed-name> <worktree> <prop> [more props...]
Confirms a seeded change (existing tests pass, demo fails with it and passes without it) in its scratch
worktree, stores it under /verif/seeded/<seed-name>/, then applies the patch to /repo, runs the named
quick checks, and reverts /repo."""
import json, os, shutil, subprocess, sys, time
name, wt = sys.argv[1], sys.argv[2]
props = sys.argv[3:]
V = "/verif"
d = os.path.join(V, "seeded", name)
os.makedirs(d, exist_ok=True)
def sh(cmd, cwd=None, timeout=3000):
    p = subprocess.run(cmd, shell=True, cwd=cwd, stdout=subprocess.PIPE, stderr=subprocess.STDOUT, text=True, timeout=timeout)
    return p.returncode, p.stdout
demo = [f for f in os.listdir(os.path.join(wt, "tests")) if f.startswith("demo_")][0]
demoname = demo[:-3]
ran = []
# 1. confirm in the worktree
# the agent's own patch.diff is authoritative: reset the tree to exactly that change
if os.path.exists(os.path.join(wt, "patch.diff")):
    sh("git checkout -- src; git apply patch.diff", cwd=wt)
else:
    sh("git diff -- src > patch.diff", cwd=wt)
rc, out = sh("cargo test --offline --lib 2>&1 | grep 'test result'", cwd=wt)
ran.append(("cargo test --offline --lib (with change)", out.strip()))
lib_ok = "44 passed; 0 failed" in out
rc1, out1 = sh("cargo test --offline --test %s 2>&1 | grep -E 'test result|panicked' | head -3" % demoname, cwd=wt)
ran.append(("cargo test --offline --test %s (with change)" % demoname, out1.strip()))
fails_with = "FAILED" in out1 or "failed" in out1
sh("git diff -- src > /tmp/wt/_seedtest_%s.diff; git checkout -- src" % name, cwd=wt)
rc2, out2 = sh("cargo test --offline --test %s 2>&1 | grep -E 'test result|panicked' | head -3" % demoname, cwd=wt)
ran.append(("cargo test --offline --test %s (without change)" % demoname, out2.strip()))
passes_without = "1 passed; 0 failed" in out2
sh("git apply /tmp/wt/_seedtest_%s.diff" % name, cwd=wt)
sh("git checkout example.png", cwd=wt)
shutil.copy(os.path.join(wt, "patch.diff"), os.path.join(d, "patch.diff"))
shutil.copy(os.path.join(wt, "tests", demo), os.path.join(d, demo))
if os.path.exists(os.path.join(wt, "NOTES.md")):
    shutil.copy(os.path.join(wt, "NOTES.md"), os.path.join(d, "NOTES.md"))
confirmed = lib_ok and fails_with and passes_without
print("confirmed:", confirmed, "lib_ok", lib_ok, "fails_with", fails_with, "passes_without", passes_without)
results = {}
if confirmed:
    rc, out = sh("git -C /repo apply %s" % os.path.join(d, "patch.diff"))
    if rc != 0:
        print("patch does not apply to /repo:", out)
    else:
        try:
            for p in props:
                t0 = time.time()
                rc, out = sh("./check %s --tier quick" % p, cwd=V)
                viol = [l for l in out.splitlines() if l.startswith("VIOLATION")]
                cls = [l for l in out.splitlines() if "violation classes" in l]
                results[p] = {"exit": rc, "violations": len(viol), "classes": cls[0][:600] if cls else "", "wall_s": round(time.time() - t0, 1)}
                print(p, results[p])
        finally:
            sh("git -C /repo checkout -- .")
            # evidence files written during the mutated runs are not evidence of the real tree
            sh("git checkout -- evidence", cwd=V)
meta = {"breaks_property": props[0] if props else None, "source": "independent sub-agent given only the property text",
        "confirmed": confirmed, "what_i_ran": ran, "checks_on_mutated_repo": results,
        "needs": open(os.path.join(d, "NOTES.md")).read()[:3000] if os.path.exists(os.path.join(d, "NOTES.md")) else ""}
json.dump(meta, open(os.path.join(d, "meta.json"), "w"), indent=1)
