#!/usr/bin/env python3
"""triage.py <pid> <name>: summarise tagged failures of the last Trace_Canvas run of a property."""
import sys, json, collections
sys.path.insert(0, '/verif')
from vlib import core
pid, name = sys.argv[1], sys.argv[2]
scs = core.read_ndjson('/verif/work/%s/%s.scen.ndjson' % (pid, name))
log = open('/verif/work/%s/tlc_Trace_Canvas.log' % pid).read().splitlines()
cnt = collections.Counter()
ex = {}
for ln in log:
    if ln.startswith('<<"') and not ln.startswith('<<"SUM') and not ln.startswith('<<"INC'):
        t = core.parse_tla(ln)
        tag, r, tg, ci, op = t[0], t[1], t[2], t[3], t[4]
        sc = scs[r-1]
        calls = sc['calls']
        # the prefix ops before this call on main numbering
        pre = [c['op'] for c in calls[:ci-1]]
        c = calls[ci-1] if ci-1 < len(calls) else {}
        mode = c.get('opts', {}).get('blend') if isinstance(c.get('opts'), dict) else None
        key = (tag, op, mode if op not in ('clear','mask','pop_layer') else '-', 'clipP' if 'push_clip' in pre else '', 'clipR' if 'push_clip_rect' in pre else '', 'layer' if 'push_layer' in pre else '', 'T' if 'set_transform' in pre else '', 'tgt%d' % min(tg,2))
        cnt[key] += 1
        ex.setdefault(key, (r, tg, ci, t[5] if len(t) > 5 else None))
for k, n in sorted(cnt.items(), key=lambda x: -x[1]):
    print(n, k, ex[k])
