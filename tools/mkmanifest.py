#!/usr/bin/env python3
"""Regenerates /verif/MANIFEST.json from the table below (single source of truth)."""
import json, os, subprocess
V = os.path.dirname(os.path.dirname(os.path.abspath(__file__)))
props = [json.loads(l) for l in open(os.path.join(V, "properties.jsonl"))]
ids = [p["id"] for p in props]

CHECKS = {}
def chk(pid, text, note, technique, design_ref):
    CHECKS[pid] = dict(text=text, note=note, technique=technique, design_ref=design_ref)

exec(open(os.path.join(V, "tools", "manifest_table.py")).read())

hooks_commits = subprocess.run(["git", "-C", "/repo", "log", "--format=%H", "--grep=^verif hooks"], stdout=subprocess.PIPE, text=True).stdout.split()
m = {
 "version": 1,
 "setup_cmd": "./check setup",
 "hooks": {
  "guard": "raqote_verif",
  "enable": "rustc --cfg raqote_verif, set for the whole harness build in /verif/harness/.cargo/config.toml (path dependency on /repo, rebuilt by every check); the API call recorder (src/verif_trace.rs) additionally needs the environment variable RAQOTE_VERIF_TRACE=<dir> and is used by running /repo's own unit tests with RUSTFLAGS='--cfg raqote_verif' (vlib/testtrace.py)",
  "baseline_off_cmd": "cd /repo && cargo test --workspace --no-fail-fast --offline",
  "source_commits": hooks_commits,
  "add_only": True,
 },
 "engines": [
  {"name": "tlc", "path": "/verif/spec", "serves_properties": sorted(CHECKS), "kind_free_text": "explicit TLA+ specification (spec/*.tla): P-level property modules, I-level implementation-shaped machines, MC_* design-level model checking, Gen_* scenario generation, Trace_* validation of traces recorded from the real library"},
  {"name": "rqconf", "path": "/verif/harness", "serves_properties": sorted(CHECKS), "kind_free_text": "Rust conformance harness (path dependency on /repo with --cfg raqote_verif): executes TLC-generated and seeded random scenarios on the real library and records NDJSON traces"},
 ],
 "checks": [],
 "notes": "All verdicts come from TLC evaluating property-level TLA+ predicates on traces recorded from the real library; see DESIGN.md.",
 "not_applicable": [],
}
for pid in ids:
    if pid in CHECKS:
        c = CHECKS[pid]
        m["checks"].append({
         "property_id": pid,
         "quick_cmd": "./check %s --tier quick" % pid,
         "thorough_cmd": "./check %s --tier thorough" % pid,
         "evidence_file": "/verif/evidence/%s.json" % pid,
         "replay_cmd_template": "./check %s --replay {path}" % pid,
         "engine": "tlc",
         "level_claimed": {"category": "model_checking", "text": c["text"], "design_ref": c["design_ref"]},
         "level_note": c["note"],
         "technique": c["technique"],
        })
    else:
        m["not_applicable"].append({"property_id": pid, "reason": NOT_YET.get(pid, "check not built yet (work in progress); the design in DESIGN.md section 7 applies")})
json.dump(m, open(os.path.join(V, "MANIFEST.json"), "w"), indent=1)
print("checks:", sorted(CHECKS), "n/a:", [x["property_id"] for x in m["not_applicable"]])
