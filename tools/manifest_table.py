NOT_YET = {}
chk("C15",
    "TLC checks that the index arithmetic of composite_surface (I-spec) refines block transfer (P-spec) on every small size/rectangle/offset, enumerates the same space as scenarios that are executed on the real copy_surface/blend_surface/blend_surface_with_alpha, and validates every recorded transfer (plus seeded random ones up to 8x8 with far-outside rectangles) against the P-spec. Exhaustive within the bounds, sampled beyond.",
    "Trusted: harness JSON projection and pixel patterns; Pixel.tla transcription of sw-composite (self-checked against the real functions); bounds: sizes 0..2, corners -1..2, offsets -2..2 exhaustive.",
    "TLA+ spec (Surface.tla) + TLC: I=>P refinement, TLC-generated scenarios replayed on the code, TLC trace validation",
    "DESIGN.md 7 C15")
chk("C01",
    "TLC enumerates every triangle (and quadrilateral on a coarser grid) on a small quarter-pixel grid in variants that push it partly/wholly off each side of the surface, samples multi-loop polygons by simulation, the harness executes each on the real fill()/push_clip(), and TLC validates every recorded pixel against the exact 4x4 supersampling specification (Coverage.tla: rational edge crossings, round to nearest with ties two-valued, winding rule per cell, allowed alpha set 16k/16k-1). Exhaustive inside the bounds, seeded random polygons (up to 7 vertices, 3 loops, edges 3000 px tall) beyond.",
    "Trusted: harness path construction/pixel projection. Lattice inputs make every f32 step exact. Rounding ties and the 16.16 slope truncation of edges taller than 22 px are accepted either way (DESIGN.md C01).",
    "TLA+ spec (Coverage.tla) + TLC-generated polygons replayed on the code + TLC trace validation",
    "DESIGN.md 7 C01")
