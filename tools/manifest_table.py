NOT_YET = {}
chk("C15",
    "TLC checks that the index arithmetic of composite_surface (I-spec) refines block transfer (P-spec) on every small size/rectangle/offset, enumerates the same space as scenarios that are executed on the real copy_surface/blend_surface/blend_surface_with_alpha, and validates every recorded transfer (plus seeded random ones up to 8x8 with far-outside rectangles) against the P-spec. Exhaustive within the bounds, sampled beyond.",
    "Trusted: harness JSON projection and pixel patterns; Pixel.tla transcription of sw-composite (self-checked against the real functions); bounds: sizes 0..2, corners -1..2, offsets -2..2 exhaustive.",
    "TLA+ spec (Surface.tla) + TLC: I=>P refinement, TLC-generated scenarios replayed on the code, TLC trace validation",
    "DESIGN.md 7 C15")
