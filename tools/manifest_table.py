NOT_YET = {}
chk("C15",
    "TLC checks that the index arithmetic of composite_surface (I-spec) refines block transfer (P-spec) on every small size/rectangle/offset, enumerates the same space as scenarios that are executed on the real copy_surface/blend_surface/blend_surface_with_alpha, and validates every recorded transfer (plus seeded random ones up to 8x8 with far-outside rectangles) against the P-spec. Exhaustive within the bounds, sampled beyond.",
    "Trusted: harness JSON projection and pixel patterns; Pixel.tla transcription of sw-composite (self-checked against the real functions); bounds: sizes 0..2, corners -1..2, offsets -2..2 exhaustive.",
    "TLA+ spec (Surface.tla) + TLC: I=>P refinement, TLC-generated scenarios replayed on the code, TLC trace validation",
    "DESIGN.md 7 C15")
chk("C01",
    "TLC enumerates every triangle (and quadrilateral on a coarser grid) on a small quarter-pixel grid in variants that push it partly/wholly off each side of the surface, samples multi-loop polygons by simulation, the harness executes each on the real fill()/push_clip(), and TLC validates every recorded pixel against the exact 4x4 supersampling specification (Coverage.tla: rational edge crossings, round to nearest with ties two-valued, winding rule per cell, allowed alpha set 16k/16k-1). Exhaustive inside the bounds, seeded random polygons (up to 7 vertices, 3 loops, edges 3000 px tall) beyond.",
    "Trusted: harness path construction/pixel projection. Lattice inputs make every f32 step exact. Rounding ties and the 16.16 slope truncation of edges taller than 22 px are accepted either way (DESIGN.md C01).",
    "TLA+ spec (Coverage.tla) + TLC-generated polygons replayed on the code + TLC trace validation",
    "DESIGN.md 7 C01")
_canvas_note = ("Trusted: harness interpreter/projection (harness/src/canvas.rs); Coverage.tla (validated by C01) for lattice shape and clip coverage; "
                "Pixel.tla transcription of sw-composite arithmetic (self-checked against the real functions); image/gradient source colours are taken from a Src "
                "probe render (their positioning is C12/C13). Bounds: 5x5 surface, menus of Gen_Canvas, set-up depth <= 2-3 exhaustive, deeper by simulation.")
chk("C02",
    "The DrawTarget API is specified as a TLA+ state machine (Canvas.tla: pixels, transform, whole clip stack, layer stack). TLC generates properly nested call histories from menus (Gen_Canvas, exhaustive to small depth and simulated deeper, with 28 blend modes x sources x alphas x AA), the harness executes them on the real library (one shadow target per open layer), and TLC validates every recorded step: every pixel for which the specification's MayChange (inside every pushed clip rect, non-zero coverage in every pushed clip path, possibly non-zero shape coverage, no layer open) is false must be bit-identical.",
    _canvas_note, "TLA+ API state machine (Canvas.tla) + TLC-generated histories replayed on the code + TLC trace validation (MayChange predicate)", "DESIGN.md 7 C02")
chk("C03",
    "Same pipeline as C02; for every pixel that may change, the observed value must be a member of Composite(mode, source, previous, coverage, clip coverage) from Pixel.tla, with the set exactly as wide as the property's wording (SrcOver via over_in/over_in_in, other modes lerp by the coverage product, exact blend at full coverage, unchanged at zero). All 28 blend modes are transcribed into TLA+.",
    _canvas_note, "TLA+ per-pixel compositing spec (Pixel.tla, Canvas.tla Allowed) + TLC trace validation of TLC-generated histories", "DESIGN.md 7 C03")
chk("C05",
    "Canvas.tla keeps the whole clip stack; TLC enumerates push/pop histories over 11 clip rectangles (overlapping, disjoint, inverted, off-surface) and 5 clip paths with transforms, to depth 2-3 exhaustively and depth 5 by simulation, and every drawn pixel of the real library must match MayChange/Allowed under the intersection of all rectangles and the product of all path coverages; stack depths are compared after every call.",
    _canvas_note, "TLA+ API state machine with full clip stack + TLC-generated push/pop histories + TLC trace validation", "DESIGN.md 7 C05")
chk("C06",
    "Layers in Canvas.tla are isolated groups: the harness gives every open layer a shadow target (transparent, same transform and clip) that receives the same calls, so the layer's content is observed rather than guessed; TLC validates that the visible surface never changes while a layer is open (including clear), that pop_layer equals Composite(layer blend, shadow pixel, previous, opacity byte, clip) for every pixel of the clip, recursively for nested layers, and that transform and stack depths are untouched by push/pop; layers under empty/inverted clips must not panic.",
    _canvas_note, "TLA+ API state machine with layer stack + shadow-target conformance + TLC trace validation", "DESIGN.md 7 C06")
chk("C10",
    "TLC generates histories of drawing calls with very different vertical extents, no-op draws, singular transforms and off-surface clips; for every drawing call the harness also replays the call on a fresh DrawTarget holding the same pixels and the re-established transform/clips (layer groups as a whole), and TLC requires bit-identical pixels plus the rasteriser-idle hook after every call. In Canvas.tla the next state is a function of <<pix, ctm, clips, layers>> and the call only.",
    "Trusted: harness state re-establishment; the cfg(raqote_verif) idle hook. Histories up to 4 draws + 4 set-up calls.",
    "TLA+ API state machine + TLC-generated histories + fresh-replay equality and idle-hook validation by TLC", "DESIGN.md 7 C10")
chk("C11",
    "Two-route scenarios generated by TLC (Gen_Routes xform): fill under T vs fill(Path::transform(T)) for 12 invertible transforms (incl. rotations and a general matrix) x 7 shapes incl. curves must be bit-identical; clip rects, mask and surface copies under T must equal the identity; singular T must draw nothing. Histories with lattice transforms are validated by the C02/C03 predicates with geometry mapped through T in the specification, and get_transform is compared with the specification's after every call.",
    _canvas_note, "TLA+ spec (Canvas.tla transforms) + TLC-generated two-route scenarios and histories + TLC trace validation", "DESIGN.md 7 C11")
chk("C14",
    "TLC enumerates every integer rectangle (x,y in -2..6, w,h in -3..6) on a 4x4 destination of distinct pixels with blend mode/source/alpha variants, and for each the four route pairs of the property (fill_rect vs fill(rect path); with vs without surface-covering clip; clear with vs without clip; draw_image_at vs fill_rect with translated image); the harness runs both routes and TLC requires bit-identical pixels.",
    "Trusted: harness run_routes. Exhaustive over the stated rectangle grid; variants by hash.",
    "TLA+ two-route specification (FillRect is Fill(RectPath)) + TLC-enumerated scenarios + TLC equality validation", "DESIGN.md 7 C14")
chk("C18",
    "Design level: TLC checks on a boundary grid of channel values that every blend mode and compositing primitive of Pixel.tla (all 28 modes transcribed from sw-composite, self-checked against the real functions on thousands of tuples each run) preserves r,g,b <= a and the endpoint lemmas. Implementation level: the C03 canvas histories (28 modes, coverage and clip ramps, alpha, layers) with premultiplied inputs are executed and TLC evaluates Premul on every recorded pixel after every call; from_unpremultiplied_argb / From<Color> are checked for all 256x256 (alpha, colour) pairs.",
    _canvas_note + " The non-separable modes' defect inside sw-composite is a known finding.",
    "TLA+ Pixel.tla invariants model-checked by TLC + TLC trace validation of Premul on recorded histories", "DESIGN.md 7 C18")
chk("C17",
    "Contains.tla defines containment of a point in a polyline path exactly (on an explicit segment, or winding number of the implicitly closed PathSem loops inside under the rule, the same loops Coverage.tla fills). TLC enumerates every triangle (thorough: quadrilateral) on a 0..3 grid as path ops with open/closed/op-after-Close/first-op-LineTo variants and samples two-loop paths; the harness asks contains_point at every half-integer point around each path and TLC validates every answer.",
    "Trusted: harness path construction and query grid. Lattice inputs: flatten is the identity and all f32 arithmetic is exact. Points lying only on an implicit closing segment are left open.",
    "TLA+ spec (Contains.tla over PathSem/Geom) + TLC-enumerated paths + TLC trace validation of recorded answers", "DESIGN.md 7 C17")
chk("C20",
    "Builder.tla specifies PathBuilder as an append-only op log (rect = M L L L Z pattern), finish() = log with NonZero winding, Path::transform = pointwise affine map keeping order and winding, and arcs through exact rational start/end directions (unit Gaussian rationals) with radius, one-way turning, start/end point and signed axis-crossing-count predicates. TLC enumerates all builder call sequences of length <= 3 (4 thorough) over 11 lattice calls with 10 transforms, and 3456 arcs (12 start directions x 6 residual angles x 0..5 quarter turns x both signs x 4 radii incl. 0 and sweeps beyond a full turn); the harness records the real ops (arc quadratics sampled in f64) and TLC validates them.",
    "Trusted: harness projection of f32 ops to 1/1024 px and f64 sampling of emitted quadratics at t=i/8; angle arguments are computed by the harness from the exact directions (atan2 in f64).",
    "TLA+ spec (Builder.tla) + TLC-enumerated call sequences/arcs + TLC trace validation", "DESIGN.md 7 C20")
chk("C19",
    "Views.tla is a small state machine over the pixel buffer with word-view and byte-view write actions and the derived views (words A,R,G,B; bytes B,G,R,A; PNG = RGBA8 row-major un-premultiplied with floor(255c/a), transparent pixels passed through; from_vec resize; into_vec/into_inner). TLC enumerates sizes 0..3x0..3, five constructors and all write sequences to depth 2 (3 thorough) alternating between views; the harness performs them on the real DrawTarget, exports and decodes a PNG after every step, and TLC checks that every view agrees with the specification state after every action.",
    "Trusted: harness word splitting, png crate decoder, little-endian host.",
    "TLA+ state machine (Views.tla) + TLC-enumerated write sequences + TLC trace validation of all views after every step", "DESIGN.md 7 C19")
