#!/usr/bin/env python3
"""seed2.py <PID> [--props P1,P2] [--round r3] [--keep]
Round-2 seeded changes: for each of patchA.diff / patchB.diff delivered by a sub-agent in /tmp/wt/r2-<PID>:
  1. confirm in the scratch worktree: with the change the 44 unit tests pass and the demo fails; without it the demo passes;
  2. run the named quick checks against a scratch copy of /repo with the change applied (tools/lab.py; /repo untouched);
  3. store everything under /verif/seeded/<PID>-r2<a|b>/.
"""
import json, os, shutil, subprocess, sys, time
args = sys.argv[1:]
pid = args[0]
props = [pid]
if "--props" in args:
    props = args[args.index("--props") + 1].split(",")
rnd = "r2"
if "--round" in args:
    rnd = args[args.index("--round") + 1]
wt = "/tmp/wt/%s-%s" % (rnd, pid)
V = "/verif"


def sh(cmd, cwd=None, timeout=3000):
    p = subprocess.run(cmd, shell=True, cwd=cwd, stdout=subprocess.PIPE, stderr=subprocess.STDOUT, text=True, timeout=timeout)
    return p.returncode, p.stdout


only = args[args.index("--only") + 1] if "--only" in args else None
for X in ("A", "B"):
    if only and X != only:
        continue
    patch = os.path.join(wt, "patch%s.diff" % X)
    demo = "demo_%s_%s" % (pid, X)
    if not os.path.exists(patch) or not os.path.exists(os.path.join(wt, "tests", demo + ".rs")):
        print(pid, X, "missing deliverables")
        continue
    d = os.path.join(V, "seeded", "%s-%s%s" % (pid, rnd, X.lower()))
    os.makedirs(d, exist_ok=True)
    ran = []
    sh("git checkout -- src example.png", cwd=wt)
    rc, out = sh("git apply %s" % patch, cwd=wt)
    if rc != 0:
        print(pid, X, "patch does not apply", out)
        continue
    rc, out = sh("cargo test --offline --lib 2>&1 | grep 'test result'", cwd=wt)
    ran.append(("cargo test --offline --lib (with change)", out.strip()))
    lib_ok = "44 passed; 0 failed" in out
    rc, out = sh("cargo test --offline --doc 2>&1 | grep 'test result'", cwd=wt)
    ran.append(("cargo test --offline --doc (with change)", out.strip()))
    doc_ok = "0 failed" in out
    rc1, out1 = sh("cargo test --offline --test %s 2>&1 | grep -E 'test result|panicked' | head -3" % demo, cwd=wt)
    ran.append(("cargo test --offline --test %s (with change)" % demo, out1.strip()))
    fails_with = "FAILED" in out1 or "failed" in out1 or "panicked" in out1
    sh("git checkout -- src example.png", cwd=wt)
    rc2, out2 = sh("cargo test --offline --test %s 2>&1 | grep -E 'test result|panicked' | head -3" % demo, cwd=wt)
    ran.append(("cargo test --offline --test %s (without change)" % demo, out2.strip()))
    passes_without = "passed; 0 failed" in out2 and "0 passed" not in out2
    confirmed = lib_ok and doc_ok and fails_with and passes_without
    print(pid, X, "confirmed:", confirmed, dict(lib_ok=lib_ok, doc_ok=doc_ok, fails_with=fails_with, passes_without=passes_without), flush=True)
    shutil.copy(patch, os.path.join(d, "patch.diff"))
    shutil.copy(os.path.join(wt, "tests", demo + ".rs"), os.path.join(d, demo + ".rs"))
    if os.path.exists(os.path.join(wt, "NOTES.md")):
        shutil.copy(os.path.join(wt, "NOTES.md"), os.path.join(d, "NOTES.md"))
    results = {}
    if confirmed:
        lab = "/tmp/lab-%s%s" % (pid, X)
        rc, out = sh("python3 tools/lab.py %s %s %s" % (lab, patch, " ".join(props)), cwd=V, timeout=7200)
        print(out, flush=True)
        try:
            results = json.load(open(os.path.join(lab, "out", "lab_result.json")))
        except Exception as e:
            results = {"error": str(e), "out": out[-2000:]}
        if "--keep" not in args:
            shutil.rmtree(lab, ignore_errors=True)
    meta = {"breaks_property": pid, "source": "independent sub-agent (round %s) given only the property text and a scratch worktree" % rnd[1:],
            "confirmed": confirmed, "what_i_ran": ran, "checks_on_mutated_copy": results,
            "needs": open(os.path.join(d, "NOTES.md")).read()[:4000] if os.path.exists(os.path.join(d, "NOTES.md")) else ""}
    json.dump(meta, open(os.path.join(d, "meta.json"), "w"), indent=1)
