#!/usr/bin/env python3
"""lab.py <labdir> <patch-file|-> <prop> [props...] [--tier quick] [--seed N]
Development aid: copies /repo (working tree) and the harness into <labdir> (outside /repo and /verif), applies the
patch to the copy, and runs the named checks against it (VERIF_LAB).  /repo, /verif/evidence and /verif/work are
untouched, so it can run while other checks use /repo.  Prints one line per property; remove <labdir> afterwards."""
import json, os, subprocess, sys, time
args = sys.argv[1:]
tier, seed = "quick", "1"
if "--tier" in args:
    i = args.index("--tier"); tier = args[i + 1]; del args[i:i + 2]
if "--seed" in args:
    i = args.index("--seed"); seed = args[i + 1]; del args[i:i + 2]
lab, patch, props = args[0], args[1], args[2:]
assert not lab.startswith("/verif") and not lab.startswith("/repo")
def sh(cmd, cwd=None, env=None):
    p = subprocess.run(cmd, shell=True, cwd=cwd, env=env, stdout=subprocess.PIPE, stderr=subprocess.STDOUT, text=True)
    return p.returncode, p.stdout
os.makedirs(lab, exist_ok=True)
sh("rsync -a --delete --exclude target --exclude .git /repo/ %s/repo/" % lab)
sh("rsync -a --exclude target /verif/harness/ %s/harness/" % lab)
sh("sed -i 's#path = \"/repo\"#path = \"%s/repo\"#' %s/harness/Cargo.toml" % (lab, lab))
if patch != "-":
    rc, out = sh("git apply --unsafe-paths --directory=%s/repo %s || patch -p1 -d %s/repo < %s" % (lab, os.path.abspath(patch), lab, os.path.abspath(patch)))
    if rc != 0:
        print("patch failed:", out); sys.exit(2)
env = dict(os.environ, VERIF_LAB=lab, VERIF_SEED=seed)
res = {}
for p in props:
    t0 = time.time()
    rc, out = sh("./check %s --tier %s" % (p, tier), cwd="/verif", env=env)
    viol = [l for l in out.splitlines() if l.startswith("VIOLATION")]
    cls = [l for l in out.splitlines() if "violation classes" in l]
    tool = [l for l in out.splitlines() if "TOOL" in l]
    res[p] = {"exit": rc, "violations": len(viol), "classes": cls[0][:500] if cls else "", "tool": tool[:2], "wall_s": round(time.time() - t0, 1)}
    print(p, json.dumps(res[p]), flush=True)
json.dump(res, open(os.path.join(lab, "out", "lab_result.json"), "w"), indent=1)
