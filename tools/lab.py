#!/usr/bin/env python3
"""lab.py <labdir> <patch-file|-> <prop> [props...] [--tier quick] [--seed N]
Development aid: copies /repo (working tree) and the harness into <labdir> (outside /repo and /verif), applies the
patch to the copy, and runs the named checks against it (VERIF_LAB).  /repo, /verif/evidence and /verif/work are
untouched, so it can run while other checks use /repo.  Prints one line per property; remove <labdir> afterwards."""
import json, os, subprocess, sys, time
args = sys.argv[1:]
tier, seed = "quick", "1"
if "--tier" in args:
    i = args.index("--tier"); tier = args[i + 1]; del args[i:i + 2]
if "--seed" in args:
    i = args.index("--seed"); seed = args[i + 1]; del args[i:i + 2]
lab, patch, props = args[0], args[1], args[2:]
assert not lab.startswith("/verif") and not lab.startswith("/repo")
def sh(cmd, cwd=None, env=None):
    p = subprocess.run(cmd, shell=True, cwd=cwd, env=env, stdout=subprocess.PIPE, stderr=subprocess.STDOUT, text=True)
    return p.returncode, p.stdout
os.makedirs(lab, exist_ok=True)
sh("rsync -a --delete --exclude target --exclude .git /repo/ %s/repo/" % lab)
sh("rsync -a --exclude target /verif/harness/ %s/harness/" % lab)
sh("sed -i 's#path = \"/repo\"#path = \"%s/repo\"#' %s/harness/Cargo.toml" % (lab, lab))
def apply_by_merge(patch):
    """The patch was written against an older commit of /repo (before later hook / fix commits): apply it to that
    commit's version of each touched file and 3-way merge the result into the lab copy (git merge-file)."""
    import re, tempfile
    files = re.findall(r"^\+\+\+ b/(\S+)", open(patch).read(), re.M)
    rc, revs = sh("git -C /repo log --format=%H -n 12")
    for rev in revs.split():
        tmp = tempfile.mkdtemp(prefix="labmerge")
        ok = True
        for f in files:
            os.makedirs(os.path.dirname(os.path.join(tmp, "base", f)), exist_ok=True)
            os.makedirs(os.path.dirname(os.path.join(tmp, "theirs", f)), exist_ok=True)
            rc, _ = sh("git -C /repo show %s:%s > %s/base/%s && cp %s/base/%s %s/theirs/%s" % (rev, f, tmp, f, tmp, f, tmp, f))
            ok = ok and rc == 0
        if ok:
            rc, out = sh("patch -p1 -s -d %s/theirs < %s" % (tmp, patch))
            ok = rc == 0
        if ok:
            for f in files:
                rc, out = sh("git merge-file %s/repo/%s %s/base/%s %s/theirs/%s" % (lab, f, tmp, f, tmp, f))
                if rc != 0:
                    # both sides inserted lines at the same place (a hook line and the change): keep both
                    sh("cp /repo/%s %s/repo/%s" % (f, lab, f))
                    rc, out = sh("git merge-file --union %s/repo/%s %s/base/%s %s/theirs/%s" % (lab, f, tmp, f, tmp, f))
                ok = ok and rc == 0
        sh("rm -rf %s" % tmp)
        if ok:
            return True
        sh("rsync -a --delete --exclude target --exclude .git /repo/ %s/repo/" % lab)
    return False


if patch != "-":
    rc, out = sh("git apply --unsafe-paths --directory=%s/repo %s" % (lab, os.path.abspath(patch)))
    if rc != 0 and not apply_by_merge(os.path.abspath(patch)):
        print("patch failed:", out); sys.exit(2)
env = dict(os.environ, VERIF_LAB=lab, VERIF_SEED=seed)
res = {}
for p in props:
    t0 = time.time()
    rc, out = sh("./check %s --tier %s" % (p, tier), cwd="/verif", env=env)
    viol = [l for l in out.splitlines() if l.startswith("VIOLATION")]
    cls = [l for l in out.splitlines() if "violation classes" in l]
    tool = [l for l in out.splitlines() if "TOOL" in l]
    res[p] = {"exit": rc, "violations": len(viol), "classes": cls[0][:500] if cls else "", "tool": tool[:2], "wall_s": round(time.time() - t0, 1)}
    print(p, json.dumps(res[p]), flush=True)
json.dump(res, open(os.path.join(lab, "out", "lab_result.json"), "w"), indent=1)
