#!/usr/bin/env python3
"""mutate.py <labdir> <seed> <n-per-file> [file ...]
Development aid: a small mutation campaign against a scratch copy of /repo (never /repo itself).
For sampled single-line mutants of the library source: build + the 44 unit tests in the lab copy; mutants that still
compile and pass are run against the checks mapped to the file (quick tier, stop at the first check that reports a
violation).  Results are appended to <labdir>/mutants.jsonl: status = no-compile | killed-by-tests | killed:<check> |
tool-error:<check> | survived.  Survivors are candidates for triage (equivalent mutant, outside every property, or a gap)."""
import json, os, random, re, subprocess, sys, time

lab, seed, nper = sys.argv[1], int(sys.argv[2]), int(sys.argv[3])
files = sys.argv[4:] or ["rasterizer.rs", "blitter.rs", "draw_target.rs", "stroke.rs", "dash.rs", "path_builder.rs", "geom.rs"]
assert not lab.startswith("/verif") and not lab.startswith("/repo")
CHECKS = {
    "rasterizer.rs": ["C01", "C08", "C10", "C07", "C02"],
    "blitter.rs": ["C03", "C13", "C12", "C06", "C05", "C14", "C01", "C18"],
    "draw_target.rs": ["C03", "C02", "C06", "C05", "C14", "C15", "C10", "C11", "C18", "C19", "C04", "C12", "C07"],
    "stroke.rs": ["C04", "C09", "C07"],
    "dash.rs": ["C09", "C07"],
    "path_builder.rs": ["C20", "C16", "C17", "C08", "C10"],
    "geom.rs": ["C08", "C16", "C01"],
}


def sh(cmd, cwd=None, env=None, timeout=3600):
    p = subprocess.run(cmd, shell=True, cwd=cwd, env=env, stdout=subprocess.PIPE, stderr=subprocess.STDOUT, text=True, timeout=timeout)
    return p.returncode, p.stdout


OPS = [
    (r" <= ", " < "), (r" < ", " <= "), (r" >= ", " > "), (r" > ", " >= "),
    (r" \+ 1\b", " + 0"), (r" - 1\b", " - 0"), (r" \+ 1\b", " - 1"),
    (r"\.min\(", ".max("), (r"\.max\(", ".min("),
    (r"\.abs\(\)", ""),
    (r" && ", " || "), (r" \|\| ", " && "),
    (r"\btrue\b", "false"), (r"\bfalse\b", "true"),
    (r" == ", " != "), (r" != ", " == "),
    (r" \+ ", " - "), (r" - ", " + "), (r" \* ", " / "),
    (r"\b0\.5\b", "0."), (r" >> ", " << "),
    (r"\.x\b", ".y"), (r"\by1\b", "y2"), (r"\bx1\b", "x2"), (r"\bwidth\b", "height"),
    ("DELETE", ""),
]
SKIP = re.compile(r"^\s*(//|#\[|use |pub use |fn |pub fn |impl|struct |pub struct |enum |pub enum |\}|\{|debug_assert|assert|let _verif|type |const |mod |pub mod )")


def candidates(path):
    lines = open(path).read().split("\n")
    out = []
    guarded = False
    for i, ln in enumerate(lines):
        if "cfg(raqote_verif)" in ln:
            guarded = True
            continue
        if guarded:
            # the guarded item: skip until a line that closes at column 0/4 (cheap heuristic: skip next 30 lines if it is a fn)
            if ln.strip() == "" or ln.startswith("}"):
                guarded = False
            continue
        if SKIP.match(ln) or "verif" in ln or ln.strip() == "":
            continue
        for k, (pat, rep) in enumerate(OPS):
            if pat == "DELETE":
                if re.match(r"^\s*(self\.|e\.|\w+ (\+|-)?= ).*;\s*$", ln) and "let " not in ln:
                    out.append((i, k, None))
                continue
            for m in re.finditer(pat, ln):
                if "->" in ln or "<'" in ln or "Vec<" in ln or "Option<" in ln or "&mut [" in ln and pat.strip() in ("<", ">"):
                    continue
                out.append((i, k, m.start()))
    return lines, out


def main():
    os.makedirs(lab, exist_ok=True)
    sh("rsync -a --delete --exclude target --exclude .git /repo/ %s/repo/" % lab)
    sh("rsync -a --exclude target /verif/harness/ %s/harness/" % lab)
    sh("sed -i 's#path = \"/repo\"#path = \"%s/repo\"#' %s/harness/Cargo.toml" % (lab, lab))
    rng = random.Random(seed)
    env = dict(os.environ, VERIF_LAB=lab, VERIF_SEED="1", CARGO_TARGET_DIR=os.path.join(lab, "t"))
    log = open(os.path.join(lab, "mutants.jsonl"), "a")
    for fn in files:
        src = os.path.join(lab, "repo", "src", fn)
        orig = open("/repo/src/" + fn).read()
        lines, cands = candidates("/repo/src/" + fn)
        rng.shuffle(cands)
        done = 0
        for (i, k, pos) in cands:
            if done >= nper:
                break
            pat, rep = OPS[k]
            new = list(lines)
            if pat == "DELETE":
                new[i] = ""
            else:
                m = re.compile(pat).search(lines[i], pos)
                if not m or m.start() != pos:
                    continue
                new[i] = lines[i][:m.start()] + re.sub(pat, rep, lines[i][m.start():m.end()]) + lines[i][m.end():]
            if new[i] == lines[i]:
                continue
            open(src, "w").write("\n".join(new))
            rec = {"file": fn, "line": i + 1, "op": "%s -> %s" % (pat, rep), "old": lines[i].strip(), "new": new[i].strip()}
            t0 = time.time()
            rc, out = sh("timeout 300 cargo test --offline --lib 2>&1 | tail -30", cwd=os.path.join(lab, "repo"), env=env)
            if "test result: ok. 44 passed" not in out:
                rec["status"] = "no-compile" if ("error" in out and "test result" not in out) else "killed-by-tests"
            else:
                done += 1
                rc, out = sh("cargo build --offline -q 2>&1 | tail -5", cwd=os.path.join(lab, "harness"), env=dict(os.environ))
                if rc != 0:
                    rec["status"] = "harness-no-compile"
                else:
                    rec["status"] = "survived"
                    rec["ran"] = []
                    for c in CHECKS[fn]:
                        rc, out = sh("./check %s --tier quick --no-build" % c, cwd="/verif", env=env, timeout=3000)
                        rec["ran"].append([c, rc])
                        if rc == 1:
                            rec["status"] = "killed:" + c
                            break
                        if rc == 2:
                            rec["status"] = "tool-error:" + c
                            rec["tool"] = [l for l in out.splitlines() if "TOOL" in l or "Error" in l][:3]
                            break
            rec["wall_s"] = round(time.time() - t0, 1)
            log.write(json.dumps(rec) + "\n")
            log.flush()
            print(json.dumps(rec), flush=True)
        open(src, "w").write(orig)


main()
