"""One pipeline per property: design-level TLC run -> TLC scenario generation -> execution on the
real library -> TLC trace validation -> verdicts/evidence."""
import json
import os
import subprocess

from . import core
from .core import Verdicts, log, run_tlc, run_harness, workdir, write_ndjson, read_ndjson, \
    json_lines_from_printed, ToolError

REGISTRY = {}


def prop(pid):
    def deco(f):
        REGISTRY[pid] = f
        return f
    return deco


def replay(pid, path):
    out = run_harness(["replay", path])
    print(out)
    return 0


def gen_scenarios(pid, module, env=None, workers=8, timeout=600, simulate=None, depth=None, seed=None):
    r = run_tlc(pid, module, env=env, workers=workers, timeout=timeout, simulate=simulate, depth=depth, seed=seed)
    scs = json_lines_from_printed(r.printed)
    return r, scs


def execute(pid, name, scenarios, timeout_ms=20000):
    w = workdir(pid)
    sp = os.path.join(w, name + ".scen.ndjson")
    tp = os.path.join(w, name + ".trace.ndjson")
    write_ndjson(sp, scenarios)
    env = dict(os.environ)
    env["RQ_TIMEOUT_MS"] = str(timeout_ms)
    p = subprocess.run([core.BIN, "run", sp, tp], env=env, stdout=subprocess.PIPE, stderr=subprocess.PIPE, text=True)
    if p.returncode != 0:
        raise ToolError("harness run failed: " + p.stderr[-2000:])
    return tp


def drive(pid, fam, seed, n):
    w = workdir(pid)
    sp = os.path.join(w, "drive_%s.scen.ndjson" % fam)
    run_harness(["drive", fam, str(seed), str(n), sp])
    return read_ndjson(sp)


def validate(pid, module, trace_path, workers=12, timeout=900, env=None, cfg=None):
    e = {"TRACE": trace_path}
    if env:
        e.update(env)
    return run_tlc(pid, module, cfg=cfg, env=e, workers=workers, timeout=timeout)


# ---------------------------------------------------------------------------------------------
# C15 surface copies
# ---------------------------------------------------------------------------------------------
def surface_sig(sc):
    x0, y0, x1, y1 = sc["rect"]
    return {"fam": "surface"}


@prop("C15")
def c15(tier, seed):
    v = Verdicts("C15", tier, seed)
    v.rule = ("TLC enumerates every (sizes, src_rect, dst) of Gen_Surface exhaustively; the harness driver adds "
              "seeded random transfers up to 8x8 with far-outside rectangles; a case is non-trivial when the "
              "specification transfers at least one pixel; distinct by scenario id")
    v.trusted = ["harness pixel patterns and JSON projection (harness/src/surface.rs)",
                 "Pixel.tla transcription of sw-composite blend/over_in (cross-checked by ./check selfcheck)"]
    thorough = tier == "thorough"
    # 1. design level: index arithmetic of composite_surface refines block transfer
    mc_env = {"FIXED": 1, "MAXSIZE": 2, "CMIN": -1, "CMAX": 2, "DMIN": -2 if not thorough else -3, "DMAX": 2 if not thorough else 3}
    if not thorough:
        mc_env.update({"MAXSIZE": 1, "CMIN": -1, "CMAX": 2})
    r = run_tlc("C15", "MC_Surface", env=mc_env, workers=8, timeout=1500)
    v.add_tlc(r)
    v.extra["ip_refinement"] = "MC_Surface: I-spec of composite_surface refines block transfer on %d parameter tuples" % r.distinct
    # 2. spec -> impl
    genv = {"ALLSIZES": 1 if thorough else 0, "CMIN": -1, "CMAX": 2, "DMIN": -2, "DMAX": 2}
    g, scs = gen_scenarios("C15", "Gen_Surface", env=genv)
    v.add_tlc(g)
    v.exhaustive = True
    scs += drive("C15", "surface", seed, 20000 if thorough else 3000)
    tp = execute("C15", "all", scs)
    # 3. impl -> spec
    t = validate("C15", "Trace_Surface", tp, timeout=3000)
    v.add_tlc(t)
    v.evaluations = len(scs)
    v.traces = len(scs)
    for tup in t.tuples("NT"):
        v.nontrivial.add(tup[1])
    bad = t.tuples("BAD")
    for tup in bad:
        sc = scs[tup[1] - 1]
        v.violation(sc, {"outcome": tup[3], "sig": surface_sig(sc)})
    v.samples = scs[:2] + scs[-2:]
    return v.finish()


# ---------------------------------------------------------------------------------------------
# C01 polygon coverage
# ---------------------------------------------------------------------------------------------
def generic_indexed(v, t, scs, sigfn):
    """Common handling of Trace_* output: NT = non-trivial index, BAD = failing record."""
    for tup in t.tuples("NT"):
        v.nontrivial.add(tup[1])
    for tup in t.tuples("BAD"):
        sc = scs[tup[1] - 1]
        v.violation(sc, {"detail": tup[3:], "sig": sigfn(sc)})


@prop("C01")
def c01(tier, seed):
    v = Verdicts("C01", tier, seed)
    thorough = tier == "thorough"
    v.rule = ("TLC (Gen_Fill) enumerates every triangle on the 0..N quarter-pixel grid, each in NVAR variants "
              "(offset pushing it partly/wholly off each side, surface size, rule, AA mode, explicit/implicit close, "
              "fill or clip route), and samples multi-loop polygons by simulation; the harness driver adds random "
              "polygons (3-7 vertices, 1-3 loops, tall edges); non-trivial = some pixel partially covered; distinct by scenario")
    v.trusted = ["harness path construction and pixel projection (harness/src/cov.rs)"]
    scs = []
    g, s1 = gen_scenarios("C01", "Gen_Fill", env={"N": 5 if thorough else 4, "NV": 3, "NL": 1, "NVAR": 3 if thorough else 2}, timeout=1200)
    v.add_tlc(g)
    scs += s1
    # quadrilaterals on a coarser grid, exhaustively
    g, s2 = gen_scenarios("C01", "Gen_Fill", env={"N": 3 if thorough else 2, "NV": 4, "MINV": 4, "NL": 1, "NVAR": 2}, timeout=1200)
    v.add_tlc(g)
    scs += s2
    # sampled: two and three loops of 3..5 vertices on a 0..10 grid
    g, s3 = gen_scenarios("C01", "Gen_Fill", env={"N": 10, "NV": 5, "NL": 2, "NVAR": 2}, simulate=6000 if thorough else 1500,
                          depth=14, seed=seed, workers=1)
    v.add_tlc(g)
    scs += s3
    v.exhaustive = True
    scs += drive("C01", "cov", seed, 20000 if thorough else 3000)
    tp = execute("C01", "all", scs)
    t = validate("C01", "Trace_Cov", tp, timeout=3000)
    v.add_tlc(t)
    v.evaluations = len(scs)
    v.traces = len(scs)
    generic_indexed(v, t, scs, lambda sc: {"fam": "cov"})
    v.samples = [scs[0], scs[len(scs) // 2], scs[-1]]
    return v.finish()
