"""One pipeline per property: design-level TLC run -> TLC scenario generation -> execution on the
real library -> TLC trace validation -> verdicts/evidence."""
import json
import os
import subprocess
import time

from . import core
from .core import Verdicts, log, run_tlc, run_harness, workdir, write_ndjson, read_ndjson, \
    json_lines_from_printed, ToolError

REGISTRY = {}


def prop(pid):
    def deco(f):
        REGISTRY[pid] = f
        return f
    return deco


def trace_module_for(sc):
    """The Trace_* module that decides a scenario of the given family."""
    fam, kind = sc.get("fam"), sc.get("kind")
    if fam == "stroke":
        if kind in ("fill", "clip"):
            return "Trace_Curve"
        curved = sc.get("quantize") or any(o[0] in ("Q", "C", "A") for o in sc.get("ops", []))
        if curved:
            return "Trace_StrokeCurve"
        return "Trace_Dash" if "dash" in sc.get("style", {}) and sc.get("width_class", "pos") == "pos" and _pos_width(sc) else "Trace_Stroke"
    if fam == "views":
        return "Trace_Convert" if kind == "convert" else "Trace_Views"
    return {"cov": "Trace_Cov", "canvas": "Trace_Canvas", "routes": "Trace_Routes", "surface": "Trace_Surface", "shade": "Trace_Shade",
            "contains": "Trace_Contains", "flatten": "Trace_Flatten", "builder": "Trace_Builder", "arc": "Trace_Builder",
            "boundary": "Trace_Boundary", "curveedge": "Trace_CurveEdge", "selfcheck": "Trace_PixelSelf"}.get(fam)


def _pos_width(sc):
    w = sc.get("style", {}).get("width")
    return isinstance(w, (int, float)) and w > 0


def replay(pid, path):
    """Re-run one recorded scenario on the current /repo and let the family's Trace_* module decide it again.
    Exit 1 (with the VIOLATION line) when it still fails, 0 when it is accepted now."""
    d = json.load(open(path))
    sc = d["scenario"] if isinstance(d, dict) and "scenario" in d else d
    mod = trace_module_for(sc)
    if mod is None:
        print(run_harness(["replay", path]))
        return 0
    tp = execute(pid, "replay", [sc])
    t = validate(pid, mod, tp, workers=2, timeout=900)
    bad = [ln for ln in t.printed if ln.startswith("<<") and not ln.startswith('<<"NT"') and not ln.startswith('<<"SUM"')
           and not ln.startswith('<<"SKIP"') and not ln.startswith('<<"INC"') and not ln.startswith('<<"OVF"')]
    for ln in bad:
        print(ln[:600])
    if bad:
        print("VIOLATION property=%s replay=%s" % (pid, path))
        return 1
    print("[%s] replay accepted by %s" % (pid, mod))
    return 0


def gen_scenarios(pid, module, env=None, workers=8, timeout=600, simulate=None, depth=None, seed=None):
    r = run_tlc(pid, module, env=env, workers=workers, timeout=timeout, simulate=simulate, depth=depth, seed=seed)
    scs = json_lines_from_printed(r.printed)
    return r, scs


def execute(pid, name, scenarios, timeout_ms=20000):
    w = workdir(pid)
    sp = os.path.join(w, name + ".scen.ndjson")
    tp = os.path.join(w, name + ".trace.ndjson")
    write_ndjson(sp, scenarios)
    env = dict(os.environ)
    env["RQ_TIMEOUT_MS"] = str(timeout_ms)
    p = subprocess.run([core.BIN, "run", sp, tp], env=env, stdout=subprocess.PIPE, stderr=subprocess.PIPE, text=True)
    if p.returncode != 0:
        raise ToolError("harness run failed: " + p.stderr[-2000:])
    return tp


def drive(pid, fam, seed, n):
    w = workdir(pid)
    sp = os.path.join(w, "drive_%s.scen.ndjson" % fam)
    run_harness(["drive", fam, str(seed), str(n), sp])
    return read_ndjson(sp)


CHUNK_BYTES = 10 * 1024 * 1024


def validate(pid, module, trace_path, workers=12, timeout=900, env=None, cfg=None):
    """Run a Trace_* module over a recorded trace.  Large traces are validated in chunks (TLC keeps
    the whole deserialised file in memory); record indices in the reported tuples (always their
    second component) are shifted back to indices into the whole file."""
    chunks = []
    cur = []
    size = 0
    base = 0
    n = 0
    with open(trace_path) as f:
        for ln in f:
            cur.append(ln)
            size += len(ln)
            n += 1
            if size >= CHUNK_BYTES:
                chunks.append((base, cur))
                base = n
                cur = []
                size = 0
    if cur or not chunks:
        chunks.append((base, cur))
    merged = core.TlcResult()
    t0 = time.time()
    for ci, (off, lines) in enumerate(chunks):
        if len(chunks) == 1:
            path = trace_path
        else:
            path = trace_path + ".chunk%d" % ci
            with open(path, "w") as f:
                f.writelines(lines)
        if not lines:
            continue
        e = {"TRACE": path}
        if env:
            e.update(env)
        left = max(60, timeout - (time.time() - t0))
        r = run_tlc(pid, module, cfg=cfg, env=e, workers=workers, timeout=left)
        if len(chunks) > 1:
            os.remove(path)
        merged.generated += r.generated
        merged.distinct += r.distinct
        merged.wall += r.wall
        if off == 0:
            merged.printed += r.printed
        else:
            for ln in r.printed:
                if ln.startswith("<<"):
                    try:
                        tup = core.parse_tla(ln)
                        tup[1] += off
                        merged.printed.append(core.to_tla(tup))
                        continue
                    except Exception:
                        pass
                merged.printed.append(ln)
    return merged


# ---------------------------------------------------------------------------------------------
# C15 surface copies
# ---------------------------------------------------------------------------------------------
def surface_sig(sc):
    x0, y0, x1, y1 = sc["rect"]
    return {"fam": "surface"}


@prop("C15")
def c15(tier, seed):
    v = Verdicts("C15", tier, seed)
    v.rule = ("TLC enumerates every (sizes, src_rect, dst) of Gen_Surface exhaustively; the harness driver adds "
              "seeded random transfers up to 8x8 with far-outside rectangles; a case is non-trivial when the "
              "specification transfers at least one pixel; distinct by scenario id")
    v.trusted = ["harness pixel patterns and JSON projection (harness/src/surface.rs)",
                 "Pixel.tla transcription of sw-composite blend/over_in (cross-checked by ./check selfcheck)"]
    thorough = tier == "thorough"
    # 1. design level: index arithmetic of composite_surface refines block transfer
    mc_env = {"FIXED": 1, "MAXSIZE": 2, "CMIN": -1, "CMAX": 2, "DMIN": -2 if not thorough else -3, "DMAX": 2 if not thorough else 3}
    if not thorough:
        mc_env.update({"MAXSIZE": 1, "CMIN": -1, "CMAX": 2})
    r = run_tlc("C15", "MC_Surface", env=mc_env, workers=8, timeout=1500)
    v.add_tlc(r)
    v.extra["ip_refinement"] = "MC_Surface: I-spec of composite_surface refines block transfer on %d parameter tuples" % r.distinct
    # 2. spec -> impl
    genv = {"ALLSIZES": 1 if thorough else 0, "CMIN": -1, "CMAX": 2, "DMIN": -2, "DMAX": 2}
    g, scs = gen_scenarios("C15", "Gen_Surface", env=genv)
    v.add_tlc(g)
    v.exhaustive = True
    scs += drive("C15", "surface", seed, 20000 if thorough else 3000)
    tp = execute("C15", "all", scs)
    # 3. impl -> spec
    t = validate("C15", "Trace_Surface", tp, timeout=3000)
    v.add_tlc(t)
    v.evaluations = len(scs)
    v.traces = len(scs)
    for tup in t.tuples("NT"):
        v.nontrivial.add(tup[1])
    bad = t.tuples("BAD")
    for tup in bad:
        sc = scs[tup[1] - 1]
        v.violation(sc, {"outcome": tup[3], "sig": surface_sig(sc)})
    v.samples = scs[:2] + scs[-2:]
    return v.finish()


# ---------------------------------------------------------------------------------------------
# C01 polygon coverage
# ---------------------------------------------------------------------------------------------
def generic_indexed(v, t, scs, sigfn):
    """Common handling of Trace_* output: NT = non-trivial index, BAD = failing record."""
    for tup in t.tuples("NT"):
        v.nontrivial.add(tup[1])
    for tup in t.tuples("BAD"):
        sc = scs[tup[1] - 1]
        v.violation(sc, {"detail": tup[3:], "sig": sigfn(sc)})


@prop("C01")
def c01(tier, seed):
    v = Verdicts("C01", tier, seed)
    thorough = tier == "thorough"
    v.rule = ("TLC (Gen_Fill) enumerates every triangle on the 0..N quarter-pixel grid, each in NVAR variants "
              "(offset pushing it partly/wholly off each side, surface size, rule, AA mode, explicit/implicit close, "
              "fill or clip route), and samples multi-loop polygons by simulation; the harness driver adds random "
              "polygons (3-7 vertices, 1-3 loops, tall edges); non-trivial = some pixel partially covered; distinct by scenario")
    v.trusted = ["harness path construction and pixel projection (harness/src/cov.rs)"]
    scs = []
    # design level: the scan-line machine (I-spec, Raster.tla) refines the coverage model on every
    # triangle of a small grid in 9 positions relative to the surface, with its safety invariants
    r = run_tlc("C01", "MC_Raster", env={"N": 4 if thorough else 3}, workers=12, timeout=2400)
    v.add_tlc(r)
    v.extra["ip_refinement"] = ("MC_Raster: Raster.tla (add_edge/insert/scan/step/sort/reset with the code's fixed-point arithmetic) "
                                "refines Coverage.tla; %d states, invariants SortedWhenScanned, NoMaskOverflow, IdleAfterReset, RefinesCoverage" % r.distinct)
    g, s1 = gen_scenarios("C01", "Gen_Fill", env={"N": 5 if thorough else 4, "NV": 3, "NL": 1, "NVAR": 3 if thorough else 2}, timeout=1200)
    v.add_tlc(g)
    scs += s1
    # quadrilaterals on a coarser grid, exhaustively
    g, s2 = gen_scenarios("C01", "Gen_Fill", env={"N": 3 if thorough else 2, "NV": 4, "MINV": 4, "NL": 1, "NVAR": 2}, timeout=1200)
    v.add_tlc(g)
    scs += s2
    # sampled: two and three loops of 3..5 vertices on a 0..10 grid
    g, s3 = gen_scenarios("C01", "Gen_Fill", env={"N": 10, "NV": 5, "NL": 2, "NVAR": 2}, simulate=6000 if thorough else 1500,
                          depth=14, seed=seed, workers=1)
    v.add_tlc(g)
    scs += s3
    v.exhaustive = True
    scs += drive("C01", "cov", seed, 20000 if thorough else 3000)
    tp = execute("C01", "all", scs)
    t = validate("C01", "Trace_Cov", tp, timeout=3000)
    v.add_tlc(t)
    v.evaluations = len(scs)
    v.traces = len(scs)
    generic_indexed(v, t, scs, lambda sc: {"fam": "cov"})
    v.samples = [scs[0], scs[len(scs) // 2], scs[-1]]
    return v.finish()


# ---------------------------------------------------------------------------------------------
# Canvas machine: shared pipeline for C02, C03, C05, C06, C10, C11, C18
# ---------------------------------------------------------------------------------------------
CANVAS_TAGS = ["C02", "C03", "C06L", "C06D", "C11T", "C02N", "C07", "C10", "C10I", "C18"]


NONSEP = {"Hue", "Saturation", "Color", "Luminosity"}


def canvas_sig(sc, tag, op, ci=None, msg=None):
    """Structural signature of a failing canvas event, for matching known findings."""
    calls = sc.get("calls", [])
    sig = {"fam": "canvas", "tag": tag, "op": op}
    if ci is not None and 1 <= ci <= len(calls):
        c = calls[ci - 1]
        mode = None
        if isinstance(c.get("opts"), dict):
            mode = c["opts"].get("blend")
        if c.get("op") == "pop_layer":
            # blend of the matching push_layer
            depth = 0
            for p in reversed(calls[:ci - 1]):
                if p["op"] == "pop_layer":
                    depth += 1
                elif p["op"] == "push_layer":
                    if depth == 0:
                        mode = p.get("blend", "SrcOver")
                        break
                    depth -= 1
        sig["nonsep_mode"] = mode in NONSEP
    if msg is not None:
        sig["panic_class"] = ("overflow" if "overflow" in msg else
                              "premul_assert" if "<= a" in msg else "other")
    return sig


def canvas_validate(pid, v, scs, name, count_tags, workers=12, timeout=3000, only_panic_ops=None):
    """Execute canvas scenarios, validate with Trace_Canvas, file tagged failures in count_tags
    as violations of `pid`.  Returns dict tag -> list of (scenario, tuple)."""
    tp = execute(pid, name, scs)
    t = validate(pid, "Trace_Canvas", tp, workers=workers, timeout=timeout)
    v.add_tlc(t)
    found = {}
    recs = read_ndjson(tp)

    def panic_msg(tup):
        try:
            tg = recs[tup[1] - 1]["targets"][tup[2] - 1]
            for e in tg["events"]:
                if e["ci"] == tup[3]:
                    return e.get("msg", "")
        except Exception:
            pass
        return ""

    # a scenario during which the child process died or hung satisfies no property: reported by every canvas check
    for i, rec in enumerate(recs):
        if rec.get("outcome") in ("abort", "timeout"):
            v.violation(scs[i], {"tag": "ABORT", "outcome": rec.get("outcome"),
                                 "sig": {"fam": "canvas", "tag": "ABORT", "what": rec.get("outcome")}})
    for tag in CANVAS_TAGS:
        for tup in t.tuples(tag):
            found.setdefault(tag, []).append(tup)
            sc = scs[tup[1] - 1]
            if tag in count_tags and (tag != "C07" or only_panic_ops is None or tup[4] in only_panic_ops):
                msg = panic_msg(tup) if tag == "C07" else None
                v.violation(sc, {"tag": tag, "target": tup[2], "call_index": tup[3], "op": tup[4],
                                 "pixels": tup[5] if len(tup) > 5 else None, "msg": msg,
                                 "sig": canvas_sig(sc, tag, tup[4], tup[3], msg)})
            if tag == "C07" and "C18" in count_tags:
                # sw-composite's own debug assertion `r|g|b <= a` in pack_argb32 IS the premultiplied check
                msg = panic_msg(tup)
                if "<= a" in msg:
                    v.violation(sc, {"tag": "C18", "via": "sw-composite debug assertion: " + msg, "call_index": tup[3], "op": tup[4],
                                     "sig": canvas_sig(sc, "C18", tup[4], tup[3], msg)})
    bc = blitter_cells(scs)
    tot = v.extra.setdefault("blitter_decision_table", {})
    for k, n in bc.items():
        tot[k] = tot.get(k, 0) + n
    rc = sum(r.get("rec_checked", 0) for r in recs)
    if rc:
        v.extra["recorded_states_reproduced"] = v.extra.get("recorded_states_reproduced", 0) + rc
        mm = [(r.get("id"), r["rec_mismatch"]) for r in recs if r.get("rec_mismatch")]
        if mm:
            # the replay of a recorded execution differs from the recording: the binding is off for those
            v.extra["recorded_states_mismatch"] = mm[:20]
            v.inconclusive += len(mm)
            log("[%s] WARNING: replay differs from the recorded execution for %s" % (pid, mm[:5]))
    n02 = n03 = 0
    for tup in t.tuples("SUM"):
        n02 += tup[3]
        n03 += tup[4]
    v.extra["pixels_checked_unchanged"] = v.extra.get("pixels_checked_unchanged", 0) + n02
    v.extra["pixels_checked_formula"] = v.extra.get("pixels_checked_formula", 0) + n03
    v.inconclusive += len(t.tuples("INC"))
    # non-trivial: the main target's pixels changed at some event
    for i, rec in enumerate(recs):
        if rec.get("outcome") in ("timeout", "abort") or not rec.get("targets"):
            continue
        main = rec["targets"][0]
        prev = main["init"]
        ch = False
        for e in main["events"]:
            if "after" in e and e["after"] != prev:
                ch = True
            prev = e.get("after", prev)
        if ch:
            v.nontrivial.add(scs[i]["id"] if "id" in scs[i] else i)
    v.evaluations += len(scs)
    v.traces += sum(len(r.get("targets", [])) for r in recs)
    return found


def repo_test_scenarios(pid, v):
    """Executions recorded from the repository's own unit tests (API tracer), converted to canvas scenarios."""
    from . import testtrace
    try:
        tdir = testtrace.record(pid)
        scs, st = testtrace.convert(tdir)
    except Exception as e:      # recording is an extra source of executions: its failure must not mask the check's own verdicts
        log("[%s] WARNING: the repository's unit tests could not be recorded (%s); continuing without them" % (pid, str(e)[:300]))
        v.extra["repo_tests_recorded"] = {"error": str(e)[:500]}
        return []
    v.extra["repo_tests_recorded"] = st
    v.assumptions.append("recorded executions of the repository's unit tests (src/verif_trace.rs hooks) are replayed by the harness, which must "
                         "reproduce every recorded pixel state, and validated like generated scenarios")
    return scs


def blitter_cells(scs):
    """Decision table of choose_blitter / composite as exercised by canvas scenarios: for every drawing call, is a clip path
    open, is a layer open, is the blend mode SrcOver, and which call it is.  Counts per cell go into the evidence."""
    cells = {}
    for sc in scs:
        if sc.get("fam") != "canvas":
            continue
        stack = []
        for c in sc.get("calls", []):
            op = c.get("op")
            if op in ("push_clip", "push_clip_rect"):
                stack.append("path" if op == "push_clip" else "rect")
            elif op == "push_layer":
                stack.append("layer")
            elif op == "pop_clip":
                for k in range(len(stack) - 1, -1, -1):
                    if stack[k] in ("path", "rect"):
                        del stack[k]
                        break
            elif op == "pop_layer":
                for k in range(len(stack) - 1, -1, -1):
                    if stack[k] == "layer":
                        del stack[k]
                        break
            if op in ("fill", "fill_rect", "stroke", "draw_image_at", "draw_image_with_size_at", "mask", "clear", "pop_layer"):
                mode = c.get("opts", {}).get("blend", "SrcOver") if isinstance(c.get("opts"), dict) else "SrcOver"
                key = "%s/%s/%s/%s" % (op, "clip-path" if "path" in stack else ("clip-rect" if "rect" in stack else "no-clip"),
                                       "in-layer" if "layer" in stack else "on-surface", "SrcOver" if mode == "SrcOver" else "other-mode")
                cells[key] = cells.get(key, 0) + 1
    return cells


def canvas_gen(pid, v, focus, D, ndraw, draws=1, initk="distinct", simulate=None, depth=None, seed=None, salt=0, size=(5, 5)):
    env = {"FOCUS": focus, "D": D, "NDRAW": ndraw, "DRAWS": draws, "INITK": initk, "SALT": salt,
           "EMITFULL": 1 if simulate else 0, "W": size[0], "H": size[1]}
    g, scs = gen_scenarios(pid, "Gen_Canvas", env=env, simulate=simulate, depth=depth, seed=seed,
                           workers=1 if simulate else 8, timeout=1500)
    v.add_tlc(g)
    return scs


@prop("C02")
def c02(tier, seed):
    v = Verdicts("C02", tier, seed)
    th = tier == "thorough"
    v.rule = ("Gen_Canvas: every properly nested set-up prefix (clip rects/paths, layer, lattice transforms) to depth D "
              "followed by drawing calls drawn from shape x source x 28 modes x alpha x AA; simulation adds deeper "
              "histories; destination pixels pairwise distinct, some not premultiplied; non-trivial = the visible "
              "surface changed; distinct by scenario id")
    v.trusted = ["harness interpreter and projection (harness/src/canvas.rs)", "Coverage.tla for MayChange of lattice shapes"]
    scs = canvas_gen("C02", v, "frame", 2, 28 if th else 10, salt=seed)
    scs += canvas_gen("C02", v, "frame", 3, 4, draws=2, simulate=4000 if th else 600, depth=6, seed=seed, salt=seed)
    scs += canvas_gen("C02", v, "clip", 3, 3, simulate=2000 if th else 300, depth=5, seed=seed + 1, salt=seed)
    # deep clip nestings (path, rect, path ...: a pixel inside the later clips but outside an earlier path must not change)
    scs += canvas_gen("C02", v, "clip", 5, 3, draws=2, simulate=3000 if th else 800, depth=9, seed=seed + 3, salt=seed)
    scs += canvas_gen("C02", v, "frame", 3, 3, draws=2, simulate=1500 if th else 200, depth=6, seed=seed + 2, salt=seed, size=(9, 6))
    scs += drive("C02", "canvas", seed, 3000 if th else 400)
    v.exhaustive = True
    scs += repo_test_scenarios("C02", v)
    canvas_validate("C02", v, scs, "all", {"C02", "C02N", "C06L"})
    v.samples = [scs[0], scs[-1]]
    return v.finish()


@prop("C03")
def c03(tier, seed):
    v = Verdicts("C03", tier, seed)
    th = tier == "thorough"
    v.rule = ("as C02 with premultiplied destinations; every pixel that may change is compared with the allowed set "
              "Composite(mode, source, previous, coverage, clip) of Pixel.tla; non-trivial = the visible surface changed")
    v.trusted = ["harness interpreter (harness/src/canvas.rs)", "Pixel.tla transcription of sw-composite's blend/over_in/lerp (self-checked)",
                 "shade probe: image/gradient source colours are observed with Src at full coverage"]
    scs = canvas_gen("C03", v, "frame", 2, 28 if th else 10, salt=seed + 3)
    scs += canvas_gen("C03", v, "frame", 3, 4, draws=2, simulate=4000 if th else 600, depth=6, seed=seed, salt=seed + 3)
    scs += canvas_gen("C03", v, "layer", 3, 3, simulate=2000 if th else 300, depth=6, seed=seed + 1, salt=seed + 3)
    scs += canvas_gen("C03", v, "layerclip", 3, 4 if th else 1, salt=seed + 4)
    scs += canvas_gen("C03", v, "frame", 3, 3, draws=2, simulate=1500 if th else 200, depth=6, seed=seed + 2, salt=seed + 5, size=(9, 6))
    scs += drive("C03", "canvas", seed + 100, 3000 if th else 400)
    v.exhaustive = True
    scs += repo_test_scenarios("C03", v)
    canvas_validate("C03", v, scs, "all", {"C03"})
    v.samples = [scs[0], scs[-1]]
    return v.finish()


# ---------------------------------------------------------------------------------------------
# two-route families (C14, C11)
# ---------------------------------------------------------------------------------------------
def routes_validate(pid, v, scs, name):
    tp = execute(pid, name, scs)
    t = validate(pid, "Trace_Routes", tp, timeout=3000)
    v.add_tlc(t)
    v.evaluations += len(scs)
    v.traces += len(scs)
    for tup in t.tuples("NT"):
        v.nontrivial.add((name, tup[1]))
    for tup in t.tuples("BAD"):
        sc = scs[tup[1] - 1]
        v.violation(sc, {"what": tup[3], "detail": tup[4:], "sig": {"fam": "routes", "what": tup[3]}})
    return t


@prop("C14")
def c14(tier, seed):
    v = Verdicts("C14", tier, seed)
    th = tier == "thorough"
    v.rule = ("Gen_Routes(fastpath): every integer rectangle x,y in -2..6, w,h in -3..6 on a 4x4 destination of distinct pixels; "
              "route pair (fill_rect vs fill(rect path) / with vs without covering clip / clear with vs without clip / "
              "draw_image_at vs fill_rect with translated image), blend mode, source and alpha by hash (all four pairs when thorough); "
              "non-trivial = something was drawn")
    v.trusted = ["harness interpreter (harness/src/canvas.rs run_routes)"]
    g, scs = gen_scenarios("C14", "Gen_Routes", env={"KIND": "fastpath", "NVAR": 12 if th else 4, "SALT": seed,
                                                       "XMIN": -2, "XMAX": 6, "WMIN": -3, "WMAX": 6}, timeout=1200)
    v.add_tlc(g)
    v.exhaustive = True
    # the same pairs inside an open layer (translucent, or with an erasing blend): a fast path must draw into the layer
    # exactly as the general route does, not onto the surface underneath
    inlayer = []
    for k, sc in enumerate(scs[seed % 5::5]):
        lay = {"op": "push_layer", "opacity": [1, 2]} if k % 2 == 0 else {"op": "push_layer", "opacity": [1, 1], "blend": ("Xor", "Src", "Multiply")[k % 3]}
        w = dict(sc)
        w["id"] = str(sc["id"]) + "-inlayer"
        w["a"] = [lay] + list(sc["a"]) + [{"op": "pop_layer"}]
        w["b"] = [lay] + list(sc["b"]) + [{"op": "pop_layer"}]
        inlayer.append(w)
    scs += inlayer
    routes_validate("C14", v, scs, "all")
    v.samples = [scs[0], scs[len(scs) // 3], scs[-1]]
    return v.finish()


@prop("C11")
def c11(tier, seed):
    v = Verdicts("C11", tier, seed)
    th = tier == "thorough"
    v.rule = ("Gen_Routes(xform): transform menu (translations, scales, rotations incl. 3-4-5 and 5-12-13, shear, general, singular) x "
              "shape menu (polygons and curves) x route (fill under T vs fill of Path::transform(T); clip rect / mask / surface copies under T vs identity; "
              "singular T vs nothing); Gen_Canvas(xform): histories with lattice transforms validated by the C02/C03 predicates with the geometry mapped by T, "
              "and get_transform compared after every call; non-trivial = something drawn")
    v.trusted = ["harness interpreter (harness/src/canvas.rs)", "Coverage.tla / Pixel.tla for the canvas part"]
    g, scs = gen_scenarios("C11", "Gen_Routes", env={"KIND": "xform", "NVAR": 6 if th else 2, "NK": 12 if th else 6, "SALT": seed}, timeout=1200)
    v.add_tlc(g)
    v.exhaustive = True
    # invertible transforms with a tiny determinant (scale 1/4096, 1/3000 with a rotation) applied to geometry given in
    # correspondingly large units: fill under T must still equal fill of Path::transform(T)
    for j, (m, md) in enumerate((([1, 0, 0, 1, 4096, 8192], 4096), ([0, 1, -1, 0, 12000, 0], 3000), ([3, 4, -4, 3, 20480, 0], 20480))):
        k = md if m[0] in (0, 1) else md // 5
        big = [["M", 0, 0], ["L", 3 * k * 4, 0], ["L", 0, 3 * k * 4], ["Z"], ["M", k * 4, k * 2], ["Q", 4 * k * 4, 2 * k * 4, 2 * k * 4, 3 * k * 4]]
        src = {"kind": "solid", "c": [200, 10, 200, 100]}
        o = {"blend": "SrcOver", "alpha": [1, 1], "aa": True}
        scs.append({"id": "tiny-det-%d" % j, "fam": "routes", "w": 6, "h": 6, "den": 4, "init": "distinct",
                    "a": [{"op": "set_transform", "m": m, "mden": md}, {"op": "fill", "path": {"ops": big}, "src": src, "opts": o}],
                    "b": [{"op": "fill", "path": {"ops": big}, "pretransform": {"m": m, "mden": md}, "src": src, "opts": o}]})
    routes_validate("C11", v, scs, "routes")
    scs2 = canvas_gen("C11", v, "xform", 2, 28 if th else 8, salt=seed)
    scs2 += canvas_gen("C11", v, "xform", 3, 3, draws=2, simulate=3000 if th else 500, depth=6, seed=seed, salt=seed)
    canvas_validate("C11", v, scs2, "canvas", {"C11T", "C02", "C03", "C02N"})
    # sources are fixed in user space: every source kind under every non-identity transform of the
    # shade menu, validated by the C12/C13 oracles (colour = source at T^-1 of the pixel centre)
    scs3 = []
    for kind in ("image", "linear", "radial", "sweep", "two_circle"):
        g, s1 = gen_scenarios("C11", "Gen_Shade", env={"KIND": kind, "SUB": (2 if th else 9) if kind == "image" else (2 if th else 6), "SALT": seed + 2}, timeout=1500)
        v.add_tlc(g)
        # (sweep gradients with a non-zero start angle are a known finding of C12 and are kept out of this family)
        scs3 += [x for x in s1 if x["ctm"]["m"] != [1, 0, 0, 1, 0, 0] and x.get("via", "fill") == "fill"
                 and not (kind == "sweep" and x["src"]["start_angle"] != 0)]
    simple_validate("C11", v, scs3, "shade", "Trace_Shade", sigfn=lambda sc, tup: {"fam": "shade", "kind": sc["src"]["kind"]})
    # stroking under T is the image under T of the user-space stroke: polylines (Stroke.tla region mapped by T, 1/2 px) and
    # curved paths (tube of half the scaled width around the mapped curve, 1 px) under non-identity transforms incl. mirrors
    ident = {"m": [1, 0, 0, 1, 0, 0], "mden": 1}
    s4 = [x for x in drive("C11", "stroke", seed + 11, 900 if th else 150) if x.get("ctm", ident)["m"] != ident["m"]]
    simple_validate("C11", v, s4, "stroke", "Trace_Stroke", sigfn=stroke_sig, timeout=3000)
    s5 = [x for x in drive("C11", "stroke-float", seed + 11, 600 if th else 60) if x["ctm"]["m"] != [1.0, 0.0, 0.0, 1.0, 0.0, 0.0]]
    simple_validate("C11", v, s5, "cstroke", "Trace_StrokeCurve", sigfn=stroke_sig, timeout=3000)
    v.samples = [scs[0], scs[-1], scs2[0], scs3[0]] + s4[:1] + s5[:1]
    return v.finish()


@prop("C05")
def c05(tier, seed):
    v = Verdicts("C05", tier, seed)
    th = tier == "thorough"
    v.rule = ("Gen_Canvas(clip): every properly nested history of pushes/pops of 11 clip rectangles (overlapping, disjoint, inverted, "
              "off-surface, covering) and 5 clip paths and two transforms to depth D, followed by drawing calls; the specification keeps the whole "
              "stack and every drawn pixel is validated against Allowed under the intersection/product of all of it; simulation adds depth 4-5 "
              "histories with layers; non-trivial = the surface changed")
    v.trusted = ["harness interpreter (harness/src/canvas.rs)", "Coverage.tla for clip path coverage", "Pixel.tla"]
    # design level: the clip/layer stacks and the index arithmetic of composite() and its blitters
    # (CanvasImpl.tla, as repaired) against the whole-stack semantics, every nested history to depth D
    r = run_tlc("C05", "MC_CanvasImpl", env={"D": 4 if th else 3}, workers=12, timeout=2400)
    v.add_tlc(r)
    v.extra["ip_refinement"] = ("MC_CanvasImpl: top-of-stack clip entry = intersection/product of all pushed clips, layer allocation, "
                                "no out-of-range index, accesses = exactly the effective region with each pixel's own mask and clip bytes; %d states" % r.distinct)
    scs = canvas_gen("C05", v, "clip", 2, 12 if th else 5, salt=seed)
    scs += canvas_gen("C05", v, "clip", 3, 2 if th else 1, salt=seed + 1) if th else []
    scs += canvas_gen("C05", v, "clip", 5, 3, draws=2, simulate=5000 if th else 900, depth=9, seed=seed, salt=seed)
    # clips in force while drawing inside a layer at an offset (the clip mask is surface-sized, the layer is not)
    scs += canvas_gen("C05", v, "layerclip", 3, 6 if th else 2, salt=seed + 2)
    scs += canvas_gen("C05", v, "cross", 3, 4 if th else 1, salt=seed + 3)
    scs += drive("C05", "canvas", seed + 200, 2500 if th else 300)
    v.exhaustive = True
    scs += repo_test_scenarios("C05", v)
    canvas_validate("C05", v, scs, "all", {"C02", "C03", "C02N", "C06D"})
    v.samples = [scs[0], scs[-1]]
    return v.finish()


@prop("C06")
def c06(tier, seed):
    v = Verdicts("C06", tier, seed)
    th = tier == "thorough"
    v.rule = ("Gen_Canvas(layer): properly nested histories (and, FOCUS=cross, histories whose clip and layer pops cross) of push_layer (5 opacities x 28 blend modes), clip rects at offsets / disjoint / "
              "inverted, clip paths and a transform, with drawing calls (incl. clear) inside; every open layer has a shadow target "
              "(transparent, same transform and clip) so the popped layer's content is observed, and pop_layer is validated as "
              "Composite(blend, layer pixel, previous, opacity, clip); the visible surface must not change while a layer is open; depths and "
              "transform are compared after every call; non-trivial = the surface changed")
    v.trusted = ["harness interpreter and shadow targets (harness/src/canvas.rs)", "Pixel.tla", "Coverage.tla"]
    r = run_tlc("C06", "MC_CanvasImpl", env={"D": 4 if th else 3}, workers=12, timeout=2400)
    v.add_tlc(r)
    v.extra["ip_refinement"] = "MC_CanvasImpl (layers at offsets, pop_layer through the surface-sized opacity mask): %d states" % r.distinct
    scs = canvas_gen("C06", v, "layer", 2, 10 if th else 3, salt=seed)
    scs += canvas_gen("C06", v, "layerclip", 3, 6 if th else 2, salt=seed + 1)
    # pops that cross: a clip pushed before a layer popped while the layer is open, a layer popped under clips pushed inside it
    scs += canvas_gen("C06", v, "cross", 3, 6 if th else 2, salt=seed + 2)
    scs += canvas_gen("C06", v, "cross", 4, 2, salt=seed + 3) if th else []
    scs += extra_scenarios("C06")
    scs += known_scenarios("C06", "canvas")
    scs += canvas_gen("C06", v, "layer", 5, 3, draws=3, simulate=5000 if th else 900, depth=10, seed=seed, salt=seed)
    scs += drive("C06", "canvas", seed + 300, 2500 if th else 300)
    v.exhaustive = True
    scs += repo_test_scenarios("C06", v)
    canvas_validate("C06", v, scs, "all", {"C03", "C06L", "C06D", "C11T", "C02", "C02N", "C07"},
                    only_panic_ops={"push_layer", "pop_layer"})
    v.samples = [scs[0], scs[-1]]
    return v.finish()


@prop("C10")
def c10(tier, seed):
    v = Verdicts("C10", tier, seed)
    th = tier == "thorough"
    v.rule = ("Gen_Canvas(history): histories of up to 3-4 drawing calls over shapes of very different vertical extents (tall, sliver, "
              "off-surface, empty, first op LineTo), zero-width strokes, singular transforms, off-surface clip paths; every drawing call at layer "
              "depth 0 is replayed on a fresh target with the same pixels and re-established transform/clips and must give identical pixels; "
              "layer groups are replayed as a whole; the rasteriser-idle hook must hold after every call; non-trivial = the surface changed")
    v.trusted = ["harness interpreter, state re-establishment (harness/src/canvas.rs)", "cfg(raqote_verif) idle hook"]
    cursor_design("C10", v, 4 if th else 3)
    scs = canvas_gen("C10", v, "history", 1, 6 if th else 3, draws=3, salt=seed)
    scs += canvas_gen("C10", v, "history", 4, 4, draws=4, simulate=6000 if th else 350, depth=10, seed=seed, salt=seed)
    scs += drive("C10", "canvas-history", seed + 400, 2500 if th else 300)
    # a call that paints nothing must leave nothing behind either: clear / fill / fill_rect under an empty, inverted or
    # off-surface clip rectangle (or an invisible layer) while a non-identity transform is current, then an ordinary fill -
    # which is replayed on a fresh target with the same transform and must give the same pixels
    tri = {"ops": [["M", 2, 3], ["L", 18, 5], ["L", 15, 17], ["L", 3, 14]]}
    red = {"kind": "solid", "c": [255, 255, 0, 0]}
    o = {"blend": "SrcOver", "alpha": [1, 1], "aa": True}
    k = 0
    for tm in ({"op": "set_transform", "m": [1, 0, 0, 1, 1, 1], "mden": 1}, {"op": "set_transform", "m": [1, 0, 0, 1, 1, 2], "mden": 2},
               {"op": "set_transform", "m": [0, 1, -1, 0, 5, 0], "mden": 1}):
        for r in ([7, 7, 9, 9], [3, 3, 3, 5], [4, 4, 2, 2], [-9, 0, -2, 5], [0, 0, 5, 0]):
            for mid in ({"op": "clear", "color": [255, 0, 255, 0]}, {"op": "fill", "path": tri, "src": red, "opts": o},
                        {"op": "fill_rect", "r": [4, 4, 12, 8], "src": red, "opts": o}):
                k += 1
                scs.append({"id": "noop-under-empty-clip-%d" % k, "fam": "canvas", "w": 5, "h": 5, "den": 4, "init": "distinct", "fresh": True,
                            "calls": [tm, {"op": "push_clip_rect", "r": r}, mid, {"op": "pop_clip"},
                                      {"op": "fill", "path": tri, "src": red, "opts": o}]})
        for mid in ({"op": "clear", "color": [255, 0, 255, 0]}, {"op": "fill", "path": tri, "src": red, "opts": o}):
            k += 1
            scs.append({"id": "noop-in-invisible-layer-%d" % k, "fam": "canvas", "w": 5, "h": 5, "den": 4, "init": "distinct", "fresh": True,
                        "calls": [tm, {"op": "push_layer", "opacity": [0, 1], "blend": "SrcOver"}, mid, {"op": "pop_layer"},
                                  {"op": "fill", "path": tri, "src": red, "opts": o}]})
    v.exhaustive = True
    scs += repo_test_scenarios("C10", v)
    canvas_validate("C10", v, scs, "all", {"C10", "C10I"})
    v.samples = [scs[0], scs[-1]]
    return v.finish()


def selfcheck(pid, v, seed, n):
    """Pixel.tla against the real sw-composite functions; a mismatch is a tool error."""
    scs = drive(pid, "selfcheck", seed, n)
    tp = execute(pid, "self", scs)
    t = validate(pid, "Trace_PixelSelf", tp, timeout=900)
    v.add_tlc(t)
    diffs = t.tuples("DIFF")
    if diffs:
        raise ToolError("Pixel.tla disagrees with sw-composite on %d tuples, e.g. %s" % (len(diffs), diffs[0]))
    v.extra["spec_selfcheck_tuples"] = len(scs)
    return t


def extra_scenarios(pid):
    """Counterexample inputs of design-level (I => P) runs and other regression scenarios kept under
    findings/<pid>-*.ndjson: executed on the real code on every run."""
    out = []
    d = os.path.join(core.VERIF, "findings")
    for f in sorted(os.listdir(d)):
        if f.startswith(pid + "-") and f.endswith(".ndjson"):
            out += read_ndjson(os.path.join(d, f))
    return out


def known_scenarios(pid, fam=None):
    """Scenarios of the known (unrepaired) findings of a property: replayed on every run."""
    out = []
    for k in core.load_known().get("known", []):
        if k["property"] == pid and k.get("scenario"):
            j = json.load(open(os.path.join(core.VERIF, k["scenario"])))
            sc = j["scenario"]
            if fam is None or sc.get("fam") == fam:
                out.append(sc)
    return out


def fixed_scenarios(pid, fam):
    """Scenarios of repaired findings (a fixed entry suppresses nothing: the scenario is simply checked again on every run)."""
    out, seen = [], set()
    for k in core.load_known().get("fixed", []):
        if k["property"] == pid and k.get("scenario") and k["scenario"] not in seen and k["scenario"].endswith(".json"):
            seen.add(k["scenario"])
            sc = json.load(open(os.path.join(core.VERIF, k["scenario"]))).get("scenario")
            if isinstance(sc, dict) and sc.get("fam") == fam:
                out.append(sc)
    return out


@prop("C18")
def c18(tier, seed):
    v = Verdicts("C18", tier, seed)
    th = tier == "thorough"
    v.rule = ("design level: MC_Pixel checks that every blend mode and compositing primitive of Pixel.tla preserves r,g,b <= a on a "
              "boundary grid; impl level: the C03 canvas families (28 modes, coverage/clip ramps, alpha, layers) with premultiplied "
              "destinations and sources, Premul evaluated by TLC on every recorded pixel after every call; conversions for all 256x256 (a,c); "
              "non-trivial = the surface changed")
    v.trusted = ["harness interpreter (harness/src/canvas.rs)", "Pixel.tla (self-checked against sw-composite)"]
    r = run_tlc("C18", "MC_Pixel", env={"NONSEP": 0, "GRID": 1 if th else 0}, workers=12, timeout=1500)
    v.add_tlc(r)
    selfcheck("C18", v, seed, 20000 if th else 5000)
    scs = canvas_gen("C18", v, "frame", 2, 28 if th else 8, salt=seed + 11)
    scs += canvas_gen("C18", v, "layer", 4, 3, draws=3, simulate=3000 if th else 500, depth=9, seed=seed, salt=seed + 11)
    scs += drive("C18", "canvas", seed + 500, 2500 if th else 300)
    scs += known_scenarios("C18", "canvas")
    canvas_validate("C18", v, scs, "all", {"C18"})
    conv = drive("C18", "views", seed, 256)
    tp = execute("C18", "conv", conv)
    t = validate("C18", "Trace_Convert", tp)
    v.add_tlc(t)
    v.evaluations += len(conv)
    v.traces += len(conv)
    for tup in t.tuples("BAD"):
        v.violation(conv[tup[1] - 1], {"what": "conversion not premultiplied", "channels": tup[3], "sig": {"fam": "convert"}})
    v.exhaustive = True
    v.samples = [scs[0], conv[7]]
    return v.finish()


# ---------------------------------------------------------------------------------------------
# path-level families
# ---------------------------------------------------------------------------------------------
def simple_validate(pid, v, scs, name, module, sigfn=None, timeout=3000):
    tp = execute(pid, name, scs)
    t = validate(pid, module, tp, timeout=timeout)
    v.add_tlc(t)
    v.evaluations += len(scs)
    v.traces += len(scs)
    for tup in t.tuples("NT"):
        v.nontrivial.add((name, tup[1]))
    for tup in t.tuples("BAD"):
        sc = scs[tup[1] - 1]
        v.violation(sc, {"detail": tup[3:], "sig": sigfn(sc, tup) if sigfn else {"fam": sc.get("fam")}})
    return t, tp


@prop("C17")
def c17(tier, seed):
    v = Verdicts("C17", tier, seed)
    th = tier == "thorough"
    v.rule = ("Gen_Fill(FAM=contains): every triangle (and, thorough, every quadrilateral) on the 0..3 grid as path ops, with variants "
              "(open/closed, a LineTo after Close, first op LineTo, both rules), two-loop paths by simulation; each path is queried at every "
              "half-integer point of its bounding box grown by one unit, so points level with vertices, collinear beyond edge ends and on "
              "horizontal edges all occur; non-trivial = some but not all query points contained")
    v.trusted = ["harness query grid and path construction (harness/src/pathfam.rs)"]
    cursor_design("C17", v, 5 if th else 4)
    g, scs = gen_scenarios("C17", "Gen_Fill", env={"FAM": "contains", "N": 3, "NV": 3, "NL": 1, "NVAR": 3 if th else 2}, timeout=1200)
    v.add_tlc(g)
    if th:
        g, s2 = gen_scenarios("C17", "Gen_Fill", env={"FAM": "contains", "N": 3, "NV": 4, "MINV": 4, "NL": 1, "NVAR": 1}, timeout=1200)
        v.add_tlc(g)
        scs += s2
    g, s3 = gen_scenarios("C17", "Gen_Fill", env={"FAM": "contains", "N": 4, "NV": 5, "NL": 2, "NVAR": 1},
                          simulate=4000 if th else 800, depth=14, seed=seed, workers=1)
    v.add_tlc(g)
    scs += s3
    v.exhaustive = True
    # the verdict does not depend on the scale of the geometry: every fourth scenario again with all coordinates and query
    # points 8192 times smaller (still exact in f32), where an absolute epsilon in place of an exact test would show
    tiny = []
    for sc in scs[seed % 4::4]:
        t2 = dict(sc)
        t2["id"] = str(sc["id"]) + "-tiny"
        t2["den"] = sc["den"] * 8192
        tiny.append(t2)
    scs += tiny
    simple_validate("C17", v, scs, "all", "Trace_Contains")
    v.samples = [scs[0], scs[-1]]
    return v.finish()


@prop("C20")
def c20(tier, seed):
    v = Verdicts("C20", tier, seed)
    th = tier == "thorough"
    v.rule = ("Gen_Builder: every PathBuilder call sequence of length <= LEN over 11 calls with lattice arguments (negative/zero rect "
              "sizes) with a transform by hash (translations, scales, rotation, mirror, shear, singular, non-dyadic); arcs: 12 start "
              "directions x 6 residual sweep angles x 0..5 quarter turns x both signs x 4 radii (incl. 0, beyond a full turn); "
              "non-trivial = non-empty path / non-zero sweep")
    v.trusted = ["harness projection to 1/1024 px and f64 sampling of the emitted quadratics (harness/src/pathfam.rs)"]
    g, scs = gen_scenarios("C20", "Gen_Builder", env={"KIND": "builder", "LEN": 4 if th else 3}, timeout=1200)
    v.add_tlc(g)
    g, s2 = gen_scenarios("C20", "Gen_Builder", env={"KIND": "arc"}, timeout=1200)
    v.add_tlc(g)
    scs += s2
    v.exhaustive = True
    simple_validate("C20", v, scs, "all", "Trace_Builder", sigfn=lambda sc, tup: {"fam": sc["fam"], "what": tup[3]})
    v.samples = [scs[5], scs[-1]]
    return v.finish()


@prop("C19")
def c19(tier, seed):
    v = Verdicts("C19", tier, seed)
    th = tier == "thorough"
    v.rule = ("Gen_Views: sizes 0..3 x 0..3, five constructors (new, from_vec exact/short/long, from_backing), initial pixels from a "
              "boundary menu (premultiplied and alpha 0 with arbitrary colours), every sequence of <= DEPTH writes through the word "
              "view (first/last pixel) and the byte view (bytes 0..3 and the last two); after the constructor and after each write the "
              "word view, byte view and decoded PNG are recorded; non-trivial = non-empty surface")
    v.trusted = ["harness: splitting of u32 words by shifts, png crate decoder (harness/src/views.rs)", "little-endian host (asserted by the harness build target)"]
    g, scs = gen_scenarios("C19", "Gen_Views", env={"DEPTH": 3 if th else 2}, timeout=1500)
    v.add_tlc(g)
    v.exhaustive = True
    # every premultiplied (colour, alpha) pair through the PNG export: one one-row surface per alpha holding all its colours
    # (r = c, g and b two other valid channel values), so that the floor(c * 255 / a) rule is decided for all 32 895 pairs
    for a in range(1, 256):
        row = [[a, c, (c * 7 + 3) % (a + 1), a - c] for c in range(0, a + 1)]
        scs.append({"id": "premultiplied-pairs-alpha-%d" % a, "fam": "views", "kind": "views", "w": a + 1, "h": 1, "ctor": "from_vec",
                    "pixels": row, "writes": [], "solid": [255, 255, 255, 255]})
    # the views are the surface also while a layer is open: every third views scenario again with a layer pushed (and left
    # open) straight after construction
    inl = []
    for sc in [s for s in scs if s.get("kind") == "views"][seed % 3::3]:
        w = dict(sc)
        w["id"] = str(sc["id"]) + "-layer-open"
        w["layer"] = True
        inl.append(w)
    scs += inl
    simple_validate("C19", v, scs, "all", "Trace_Views", sigfn=lambda sc, tup: {"fam": "views", "what": tup[3]})
    v.samples = [scs[3], scs[-1]]
    return v.finish()


def shader_cells(scs):
    """Decision table of choose_shader for image sources: extend x filter x (total map an integer translation?) x (alpha < 1?).
    Returns the number of scenarios per cell (a cell nobody visits is a vacuity warning in the evidence)."""
    from fractions import Fraction
    cells = {}
    for sc in scs:
        src = sc.get("src", {})
        if src.get("kind") != "image" or sc.get("via", "fill") != "fill":
            continue

        def mat(o):
            d = o.get("mden", 1)
            try:
                return [Fraction(x, d) for x in o["m"]]
            except Exception:
                return None
        a, b = mat(sc["ctm"]), mat(src) if "m" in src else [Fraction(x) for x in (1, 0, 0, 1, 0, 0)]
        if a is None or b is None:
            continue
        # total = inverse(ctm) then source transform; an integer translation iff both linear parts are the identity and
        # the combined offset is integral
        ident = a[:4] == [1, 0, 0, 1] and b[:4] == [1, 0, 0, 1]
        integer = ident and (b[4] - a[4]).denominator == 1 and (b[5] - a[5]).denominator == 1
        al = sc.get("alpha", [1, 1])
        alpha_lt1 = isinstance(al, list) and Fraction(al[0], al[1]) < 1
        key = "%s/%s/%s/%s" % (src.get("extend", "Pad"), src.get("filter", "Nearest"), "int-translation" if integer else "general", "alpha<1" if alpha_lt1 else "alpha=1")
        cells[key] = cells.get(key, 0) + 1
    return cells


def with_history(scs, seed, step=6):
    """Every step-th shade scenario again after a history that must not matter (layer pushed and popped - visible or
    invisible -, clip pushed and popped) between set_transform and the draw."""
    out = []
    for k, sc in enumerate(scs[seed % step::step]):
        if "clip" in sc:
            continue
        w = dict(sc)
        w["pre"] = ("layer", "layer0", "clip")[k % 3]
        w["id"] = str(sc["id"]) + "-after-" + w["pre"]
        out.append(w)
    return out


@prop("C13")
def c13(tier, seed):
    v = Verdicts("C13", tier, seed)
    th = tier == "thorough"
    v.rule = ("Gen_Shade(image): 12 current transforms x 11 source transforms (dyadic: translations by integers and 1/4, 1/2, scales 2, 1/2, "
              "1/4, (2,1), rotation, mirror, singular) x 5 images (1x1..3x3, distinct premultiplied texels) x Pad/Repeat x Nearest/Bilinear "
              "x 4 alphas, rendered with Src over a 6x6 surface; draw_image_at / draw_image_with_size_at placements; quick keeps one "
              "scenario in SUB by hash; non-trivial = something drawn")
    v.trusted = ["harness Src render of the source (harness/src/shade.rs)"]
    g, scs = gen_scenarios("C13", "Gen_Shade", env={"KIND": "image", "SUB": 1 if th else 2, "SALT": seed}, timeout=1500)
    v.add_tlc(g)
    v.exhaustive = th
    scs += drive("C13", "shade-image", seed, 4000 if th else 600)
    scs += with_history(scs, seed)
    # long images under maps that are almost, but not exactly, an integer translation (scale 1 + 1/1024, exact in 16.16): the
    # sampled texel drifts by a whole texel after 512 px, which a tolerance in the integer-translation test would hide
    for j, (mm, md, flt, ext) in enumerate((([1025, 0, 0, 1024, 0, 0], 1024, "Nearest", "Pad"), ([1023, 0, 0, 1024, 0, 0], 1024, "Nearest", "Repeat"),
                                            ([1025, 0, 0, 1024, 2048, 0], 1024, "Nearest", "Pad"))):
        wd = 700
        row = [[255, x % 256, x // 256 + 1, (x * 7) % 256] for x in range(wd)]
        scs.append({"w": wd, "h": 1, "id": "long-image-%d" % j, "fam": "shade", "den": 1, "ctm": {"m": [1, 0, 0, 1, 0, 0], "mden": 1}, "alpha": [1, 1],
                    "via": "fill", "src": {"kind": "image", "img": {"w": wd, "h": 1, "data": row}, "extend": ext, "filter": flt, "m": mm, "mden": md}})
    cells = shader_cells(scs)
    v.extra["shader_decision_table"] = cells
    missing = [k for k in ("%s/%s/%s/%s" % (e, f, t, a) for e in ("Pad", "Repeat") for f in ("Nearest", "Bilinear")
                           for t in ("int-translation", "general") for a in ("alpha=1", "alpha<1")) if k not in cells]
    if missing:
        v.extra["shader_cells_not_visited"] = missing
        log("[C13] WARNING: choose_shader cells without a scenario: %s" % missing)
    simple_validate("C13", v, scs, "all", "Trace_Shade", sigfn=lambda sc, tup: {"fam": "shade", "kind": "image", "via": sc.get("via")})
    v.samples = [scs[0], scs[-1]]
    return v.finish()


@prop("C12")
def c12(tier, seed):
    v = Verdicts("C12", tier, seed)
    th = tier == "thorough"
    v.rule = ("Gen_Shade(linear, radial): 12 current transforms x 3 spreads x 6 stop lists (1-5 stops, coincident and end-pinned stops, "
              "alpha ramps) x 7 linear / 4 radial geometries x 4 alphas, rendered with Src over an 8x8 surface so that t spans beyond [0,1]; "
              "every channel must lie within 4 of the premultiplied alpha-scaled colour range over t +- 3/255; non-trivial = something drawn")
    v.trusted = ["harness Src render of the source (harness/src/shade.rs)", "interval arithmetic of Shade.tla GradWindow (sound, may be wider than the text)"]
    scs = []
    for kind in ("linear", "radial", "sweep", "two_circle"):
        g, s1 = gen_scenarios("C12", "Gen_Shade", env={"KIND": kind, "SUB": 1 if th else (5 if kind in ("linear", "radial") else 9), "SALT": seed}, timeout=1500)
        v.add_tlc(g)
        scs += s1
    v.exhaustive = th
    scs += drive("C12", "shade-grad", seed, 2500 if th else 250)
    scs += with_history(scs, seed)
    scs += known_scenarios("C12", "shade")
    simple_validate("C12", v, scs, "all", "Trace_Shade",
                    sigfn=lambda sc, tup: {"fam": "shade", "kind": sc["src"]["kind"],
                                           "sweep_start_nonzero": sc["src"]["kind"] == "sweep" and sc["src"].get("start_angle", 0) != 0})
    v.samples = [scs[0], scs[-1]]
    return v.finish()


# ---------------------------------------------------------------------------------------------
# strokes, dashes, curves
# ---------------------------------------------------------------------------------------------
def stroke_sig(sc, tup):
    st = sc.get("style", {})
    return {"fam": sc.get("fam"), "kind": sc.get("kind"), "join": st.get("join"), "cap": st.get("cap"), "dashed": "dash" in st}


def stroke_ops_binding(pid, v, fam, seed, n, cap):
    """Output-level binding of the stroker: the closed pieces stroke_to_path (public API) emits for n polylines (plain
    or dashed) are compared by TLC (Trace_StrokeOps) with the pieces of Stroke.tla / Dash.tla - rectangles, bevel
    triangles, miter quadrilaterals, square caps vertex by vertex within 3/64 px, round pieces within their discs.
    A difference is not a verdict: the input is rendered as it is and enlarged four times and returned for the
    per-pixel validation.  On the repaired tree nothing differs."""
    ds = drive(pid, fam, seed + 21, n)
    for s in ds:
        s["want_stroke_path"] = True
    tp = execute(pid, "strokeops-" + fam, ds)
    t = validate(pid, "Trace_StrokeOps", tp, workers=12, timeout=3000)
    v.add_tlc(t)
    drift = t.tuples("DRIFT")
    v.extra.setdefault("stroke_output_binding", {})[fam] = {"inputs": len(ds), "pieces_differ": len(drift), "skipped": len(t.tuples("SKIP"))}
    out = []
    for tup in drift[:cap]:
        sc = dict(ds[tup[1] - 1])
        sc.pop("want_stroke_path", None)
        sc["id"] = "strokeops-%s" % sc["id"]
        out.append(sc)
        big = dict(sc)
        big["id"] = sc["id"] + "-x4"
        big["w"], big["h"] = min(sc["w"] * 4, 96), min(sc["h"] * 4, 96)
        big["ctm"] = dict(sc["ctm"], m=[x * 4 for x in sc["ctm"]["m"]])
        out.append(big)
    if drift:
        log("[%s] stroke_to_path output differs from the Stroke.tla pieces on %d of %d inputs; %d rendered scenarios added" % (pid, len(drift), len(ds), len(out)))
    return out


@prop("C04")
def c04(tier, seed):
    v = Verdicts("C04", tier, seed)
    th = tier == "thorough"
    v.rule = ("Gen_Stroke: polylines of 1-3 segments (thorough: up to 4, two subpaths) from a direction menu with integer lengths "
              "(axis, 3-4-5 and 5-12-13 directions: turning angles 0..180 degrees), open and closed, with style (4 widths x 3 caps x 3 joins x "
              "4 miter limits) and transform (identity, scale 2, 1/2, quarter-pixel shift, rotation by 90 and atan(4/3), mirror) by hash; "
              "non-trivial = both must-paint and must-not-paint pixels exist")
    v.trusted = ["harness render (harness/src/strokefam.rs)", "Stroke.tla piece construction in 1/64 px with rounding bound EPS added to the margin"]
    # design level: the stroker's piece emission (StrokeImpl.tla, as repaired) emits exactly the rectangles,
    # joins and caps of the P-level structure for every flat path of <= LEN ops over a 4-point menu
    r = run_tlc("C04", "MC_Stroke", env={"LEN": 6 if th else 5}, workers=12, timeout=2400)
    v.add_tlc(r)
    v.extra["ip_refinement"] = "MC_Stroke: stroke_to_path's emission (cur_pt, start_point, last_normal; Close; caps) = P-level pieces as bags; %d states" % r.distinct
    scs = []
    for fam, nseg, nvar, sim in ((5, 2, 1, None), (13, 2, 1, None), (5, 3, 1, 250 if not th else 1500), (13, 3, 1, 150 if not th else 800)):
        env = {"FAMILY": fam, "NSEG": nseg, "NSUB": 1, "NVAR": (2 if th else nvar), "SALT": seed}
        if sim:
            env["NSUB"] = 2 if th else 1
            g, s1 = gen_scenarios("C04", "Gen_Stroke", env=env, simulate=sim, depth=12, seed=seed + fam, workers=1)
        else:
            g, s1 = gen_scenarios("C04", "Gen_Stroke", env=env)
        v.add_tlc(g)
        scs += s1
    if not th:
        scs = [s for k, s in enumerate(scs) if k % 3 == seed % 3] if len(scs) > 900 else scs
    v.exhaustive = th
    scs += extra_scenarios("C04")
    scs += drive("C04", "stroke", seed, 2000 if th else 250)
    # every vertex off the surface by just over half the width: only miter tips and square-cap corners reach onto it
    scs += drive("C04", "stroke-offsurf", seed, 800 if th else 150)
    # a non-positive or NaN width paints nothing (plain and dashed strokes, every cap and join)
    scs += drive("C04", "stroke-nonpos", seed, 400 if th else 60) + drive("C04", "stroke-nonpos", seed + 1, 400 if th else 60)
    scs += stroke_ops_binding("C04", v, "stroke", seed, 20000 if th else 2500, 40 if th else 8)
    simple_validate("C04", v, scs, "all", "Trace_Stroke", sigfn=stroke_sig, timeout=3000)
    # curved paths stroked with round joins (margin 1 px): the tube of half the width around the curve
    g, cs = gen_scenarios("C04", "Gen_Curve", env={"FAM": "cstroke", "NOPS": 4, "NVAR": 1, "SALT": seed}, simulate=1500 if th else 120,
                          depth=12, seed=seed + 3, workers=1)
    v.add_tlc(g)
    # non-lattice geometry: arbitrary control points, arcs, rotations by arbitrary angles, uniform scales and mirrors, widths
    # 0.6-9, three caps; the harness quantises the true outline to 1/1024 px (abstraction function) for the same tube oracle
    cs += drive("C04", "stroke-float", seed, 1500 if th else 60)
    simple_validate("C04", v, cs, "curved", "Trace_StrokeCurve", sigfn=stroke_sig, timeout=3000)
    v.samples = [scs[0], scs[-1], cs[0], cs[-1]]
    return v.finish()


DRIFT_STYLES = [{"width": 3, "cap": "Butt", "join": "Miter", "miter": [4, 1]},
                {"width": 3, "cap": "Round", "join": "Round", "miter": [4, 1]},
                {"width": 2, "cap": "Square", "join": "Bevel", "miter": [4, 1]}]


def dash_drift_scenarios(v, seed, n, cap):
    """Output-level binding of the dasher: for n inputs (1-3 subpaths, dash arrays of 1-4 entries, offsets of both signs) the
    polylines returned by dash_path are compared by TLC (Trace_DashOps) with the pieces Dash.tla prescribes.  A difference is
    not a verdict (the property is about pixels): every differing input is turned into rendered scenarios (three styles,
    scale 2) that the per-pixel validation below decides.  On the repaired tree no input differs."""
    ds = drive("C09", "dashops", seed, n)
    tp = execute("C09", "dashops", ds)
    t = validate("C09", "Trace_DashOps", tp, workers=12, timeout=3000)
    v.add_tlc(t)
    drift = t.tuples("DRIFT")
    v.extra["dash_output_binding"] = {"inputs": len(ds), "pieces_differ": len(drift), "skipped": len(t.tuples("SKIP")) + len(t.tuples("NOOPS"))}
    out = []
    for tup in drift[:cap]:
        sc = ds[tup[1] - 1]
        for k, st in enumerate(DRIFT_STYLES):
            s2 = dict(sc)
            s2.pop("render", None)
            s2["id"] = "%s-drift-%d" % (sc["id"], k)
            s2["w"], s2["h"] = 52, 52
            s2["ctm"] = {"m": [2, 0, 0, 2, 0, 0], "mden": 1}
            s2["style"] = dict(st, dash=sc["style"]["dash"], dash_offset=sc["style"]["dash_offset"])
            out.append(s2)
    if drift:
        log("[C09] dash_path output differs from Dash.tla pieces on %d of %d inputs; %d rendered scenarios added" % (len(drift), len(ds), len(out)))
    return out


@prop("C09")
def c09(tier, seed):
    v = Verdicts("C09", tier, seed)
    th = tier == "thorough"
    v.rule = ("Gen_Stroke(DASH=1): the C04 polylines (integer-length segments, open and closed, 1-2 subpaths) with dash arrays of 1-6 "
              "positive entries (odd lengths, entries longer than the whole path) and offsets of both signs and beyond the period, "
              "widths 2-6, all caps and joins, transforms; non-trivial = at least two dash pieces and both must-paint and must-not-paint pixels")
    v.trusted = ["harness render (harness/src/strokefam.rs)", "Dash.tla/Stroke.tla integer geometry (1/64 px, rounding bound added to the margin)"]
    # design level: the dasher machine (DashImpl.tla, as repaired) emits exactly the pieces of the
    # arc-length semantics for every small path / dash array / offset
    r = run_tlc("C09", "MC_Dash", env={"MAXL": 4 if th else 3, "MAXSEG": 3 if th else 2, "ARR3": 1, "OFFR": 6 if th else 4}, workers=12, timeout=2400)
    v.add_tlc(r)
    r2 = run_tlc("C09", "MC_Dash", env={"TWO": 1, "MAXL": 3, "MAXSEG": 2, "OFFR": 3 if th else 2, "ARR3": 1 if th else 0}, workers=12, timeout=2400)
    v.add_tlc(r2)
    v.extra["ip_refinement"] = ("MC_Dash: DashImpl.tla (DashState, is_first_segment, first_dash, initial_segment, flush on MoveTo/end, Close branch) "
                                "refines the arc-length pieces on %d + %d states (one and two subpaths)" % (r.distinct, r2.distinct))
    scs = extra_scenarios("C09")
    for fam, nseg, sim in ((5, 2, None), (13, 2, None), (5, 3, 250 if not th else 1500), (13, 3, 100 if not th else 600)):
        env = {"FAMILY": fam, "NSEG": nseg, "NSUB": 1, "NVAR": 2 if th else 1, "SALT": seed + 5, "DASH": 1}
        if sim:
            env["NSUB"] = 2
            g, s1 = gen_scenarios("C09", "Gen_Stroke", env=env, simulate=sim, depth=12, seed=seed + fam, workers=1)
        else:
            g, s1 = gen_scenarios("C09", "Gen_Stroke", env=env)
        v.add_tlc(g)
        scs += s1
    g, s1 = gen_scenarios("C09", "Gen_Stroke", env={"FAMILY": 5, "DASH": 2, "NVAR": 2 if th else 1, "NH": 12 if th else 5, "SALT": seed})
    v.add_tlc(g)
    scs += s1
    scs += drive("C09", "dash", seed, 2000 if th else 250)
    scs += known_scenarios("C09", "stroke")
    # a dash array whose total is not positive paints nothing (zeros, entries cancelling out, negative totals)
    scs += drive("C09", "dash-nonpos", seed, 300 if th else 50)
    scs += dash_drift_scenarios(v, seed, 200000 if th else 30000, 600 if th else 60)
    scs += stroke_ops_binding("C09", v, "dash", seed, 10000 if th else 1500, 40 if th else 8)
    v.exhaustive = th
    simple_validate("C09", v, scs, "all", "Trace_Dash", sigfn=stroke_sig, timeout=3000)
    v.samples = [scs[0], scs[-1]]
    return v.finish()


def curve_edge_binding(v, seed, th):
    """Function-level binding of the rasteriser's curve edges (CurveEdge.tla): the subdivision shift of many large
    y-monotonic quadratics and the complete per-row x positions of smaller ones, as produced by the real add_edge / step
    (hook verif_curve_edge), are compared by TLC with the I-level transcription and with the true curve.  A difference is
    not a verdict: the differing edges (largest predicted flattening error first) are rendered as filled shapes and
    returned as scenarios for the per-pixel validation.  On the repaired tree nothing differs."""
    out = []
    stats = {}
    for fam, n in (("curveedge-shift", 2000 if th else 300), ("curveedge", 400 if th else 25)):
        ds = drive("C08", fam, seed, n)
        tp = execute("C08", fam, ds)
        t = validate("C08", "Trace_CurveEdge", tp, workers=12, timeout=3000)
        v.add_tlc(t)
        recs = read_ndjson(tp)
        cand = []
        for tag in ("DRIFT", "FAR"):
            for tup in t.tuples(tag):
                sc, rec = ds[tup[1] - 1], recs[tup[1] - 1]
                for j in sorted(tup[2]):
                    e = sc["edges"][j - 1]
                    sh = rec["res"][j - 1]["shift"]
                    d2 = max(abs(2 * e[2] - e[0] - e[4]), abs(2 * e[3] - e[1] - e[5])) / 4.0
                    cand.append((d2 / (8.0 * 4 ** max(sh, 1)) if sh >= 0 else 1e9, tag, e))
        stats[fam] = {"edges": sum(len(s["edges"]) for s in ds), "differ": len(cand), "undecided_overflow": len(t.tuples("OVF"))}
        cand.sort(key=lambda c: -c[0])
        for k, (err, tag, e) in enumerate(cand[:24 if th else 8]):
            xs, ys = [e[0], e[2], e[4]], [e[1], e[3], e[5]]
            ox, oy = min(xs) // 4 - 6, min(ys) // 4 - 6
            w, h = max(xs) // 4 - ox + 8, max(ys) // 4 - oy + 8
            f = lambda val, o: val / 4.0 - o
            out.append({"id": "curveedge-%s-%s-%d-%d" % (tag, fam, seed, k), "fam": "stroke", "kind": "fill", "w": w, "h": h, "den": 1,
                        "ops": [["M", f(e[0], ox), f(e[1], oy)], ["Q", f(e[2], ox), f(e[3], oy), f(e[4], ox), f(e[5], oy)]],
                        "rule": "NonZero", "ctm": {"m": [1.0, 0.0, 0.0, 1.0, 0.0, 0.0], "mden": 1}, "quantize": True,
                        "stride": max(1, min(w, h) // 40)})
    v.extra["curve_edge_binding"] = stats
    if out:
        log("[C08] curve edges of the code differ from CurveEdge.tla / the true curve: %s; %d rendered scenarios added" % (stats, len(out)))
    return out


def path_edge_binding(v, seed, th):
    """Binding of the path -> edge stage (move/line/quad/cubic/close handling, monotonic chopping, cubic-to-quadratic
    conversion, transform of the control points): the edges handed to the rasteriser (hook verif_edges) must be the
    path's outline within 1/8 px (Trace_PathEdges: NEAR, COVER, MONO).  A failure is a pointer, not a verdict: the input
    is rendered as it is and enlarged four times (the property quantifies over all paths and transforms, and a relative
    error grows with the size) and Trace_Curve decides per pixel.  On the repaired tree nothing fails."""
    out = []
    stats = {}
    for fam, n in (("curve-float", 3000 if th else 250), ("curve", 1500 if th else 150), ("curve-big", 300 if th else 30)):
        ds = drive("C08", fam, seed + 5, n)
        for s in ds:
            s["want_edges"] = True
        tp = execute("C08", "edges-" + fam, ds)
        t = validate("C08", "Trace_PathEdges", tp, workers=12, timeout=3000)
        v.add_tlc(t)
        bad = sorted({tup[1] for tup in t.tuples("EDGE")})
        stats[fam] = {"paths": len(ds), "edge_sets_off_outline": len(bad), "skipped": len(t.tuples("SKIP"))}
        for k in bad[:16 if th else 6]:
            sc = dict(ds[k - 1])
            sc.pop("want_edges", None)
            sc["id"] = "pathedges-%s" % sc["id"]
            out.append(sc)
            if sc["w"] <= 16:
                big = dict(sc)
                big["id"] = sc["id"] + "-x4"
                big["w"], big["h"] = sc["w"] * 4, sc["h"] * 4
                big["ctm"] = dict(sc["ctm"], m=[x * 4 for x in sc["ctm"]["m"]])
                big["stride"] = 2
                big["quantize"] = True      # (outline from the harness, long segments subdivided for the 31-bit cross products)
                out.append(big)
    v.extra["path_edge_binding"] = stats
    if out:
        log("[C08] edges handed to the rasteriser are off the path's outline: %s; %d rendered scenarios added" % (stats, len(out)))
    return out


@prop("C08")
def c08(tier, seed):
    v = Verdicts("C08", tier, seed)
    th = tier == "thorough"
    v.rule = ("Gen_Curve: paths of up to NOPS ops mixing MoveTo/LineTo/QuadTo/CubicTo/Close with control points from an 8-point "
              "half-pixel menu (loops, cusps, off-surface points; curve as first op, after MoveTo, directly after Close), both winding rules, "
              "fill and clip route, 8 dyadic transforms (translations, scale 2 and 1/2, rotation, mirror); sampled by TLC simulation, "
              "plus random paths with arbitrary decimal control points, arcs (PathBuilder::arc) and arbitrary well-conditioned affine transforms "
              "whose true outline the harness quantises to 1/1024 px; "
              "two-op paths exhaustively; non-trivial = some pixel must be painted")
    v.trusted = ["harness render (harness/src/strokefam.rs)", "Curve.tla: exact de Casteljau at t=i/16 with the second-difference deviation bound added to the margin"]
    scs = []
    if th:
        # every two-op path with a curve, subsampled 1 in 60 by position
        g, scs = gen_scenarios("C08", "Gen_Curve", env={"NOPS": 2, "NVAR": 1, "SALT": seed}, timeout=1200)
        v.add_tlc(g)
        scs = scs[seed % 60::60]
    g, s2 = gen_scenarios("C08", "Gen_Curve", env={"NOPS": 5, "NVAR": 1, "SALT": seed}, simulate=2500 if th else 450, depth=14, seed=seed, workers=1)
    v.add_tlc(g)
    scs += s2
    scs += drive("C08", "curve", seed, 1500 if th else 150)
    # non-lattice geometry: arbitrary control points, arcs, arbitrary invertible transforms (rotation by any angle, anisotropic
    # scale, shear, mirror); the harness quantises the true outline to 1/1024 px (abstraction function) for ClassifyFill
    scs += drive("C08", "curve-float", seed, 400 if th else 40)
    # curves long enough for the subdivision count to matter (64 x 64 surface, every third pixel decided)
    scs += drive("C08", "curve-big", seed, 120 if th else 12)
    scs += drive("C08", "curve-sweep", seed, 128 if th else 24)
    scs += curve_edge_binding(v, seed, th)
    scs += path_edge_binding(v, seed, th)
    # large petals: a cubic that returns exactly to the point it starts from is a loop with an interior of hundreds of
    # pixels (the small loops of the lattice driver are thinner than the oracle's margin) - after MoveTo, after Close, as
    # the first op after a LineTo, in four orientations, filled and as a clip
    k = 0
    for (sx, sy, ax, ay, bx, by) in ((32, 56, 50, -58, -50, -58), (8, 32, 58, 50, 58, -50), (32, 8, -50, 58, 50, 58), (56, 32, -58, -50, -58, 50)):
        c1, c2 = (sx + ax, sy + ay), (sx + bx, sy + by)
        for ops in ([["M", sx, sy], ["C", c1[0], c1[1], c2[0], c2[1], sx, sy]],
                    [["M", sx, sy], ["L", sx + 2, sy], ["L", sx, sy + 2], ["Z"], ["C", c1[0], c1[1], c2[0], c2[1], sx, sy]],
                    [["L", sx, sy], ["C", c1[0], c1[1], c2[0], c2[1], sx, sy], ["L", sx + 3, sy + 3]]):
            k += 1
            scs.append({"id": "petal-%d" % k, "fam": "stroke", "kind": "clip" if k % 4 == 0 else "fill", "w": 64, "h": 64, "den": 1, "ops": ops,
                        "rule": "EvenOdd" if k % 3 == 0 else "NonZero", "ctm": {"m": [1, 0, 0, 1, 0, 0], "mden": 1}, "stride": 2})
    # design level: the curve-edge machine (CurveEdge.tla) tracks the true quadratic within 3/4 px on every sample row and its
    # subdivision count bounds the flattening error by 1/2 px, for every y-monotonic edge on a lattice (sub-pixel phase by seed)
    r = run_tlc("C08", "MC_CurveEdge", env={"MAXC": 192 if th else 96, "STEP": 24 if th else 16, "OFFS": (seed * 3) % 16}, workers=12, timeout=3000)
    v.add_tlc(r)
    v.extra["ip_refinement"] = "MC_CurveEdge: CurveEdge.tla (compute_curve_steps, forward differences, ActiveEdge::step) within 3/4 px of the true curve on %d edges" % r.distinct
    v.exhaustive = False
    simple_validate("C08", v, scs, "all", "Trace_Curve", sigfn=lambda sc, tup: {"fam": "curve", "kind": sc.get("kind")}, timeout=6000)
    v.samples = [scs[0], scs[-1]]
    return v.finish()


def cursor_design(pid, v, n):
    """Design level: the code-shaped cursor machines of fill (apply_path), flatten and contains_point (CursorImpl.tla) refine
    the PathSem cursor on every op sequence of up to n ops over {M, L, Q, C, Z} x 3 points (MC_Cursor)."""
    r = run_tlc(pid, "MC_Cursor", env={"N": n, "PINNED": 0}, workers=8, timeout=3000)
    v.add_tlc(r)
    v.extra["cursor_refinement"] = ("MC_Cursor: fill / flatten / contains_point cursor machines refine PathSem on every op sequence of "
                                    "up to %d ops (%d states; FillCursor, FillEdges, FillLoopsAgree, FlatCursor, FlatFrom, FlatFillAgree, HitAgree)" % (n, r.distinct))


@prop("C16")
def c16(tier, seed):
    v = Verdicts("C16", tier, seed)
    th = tier == "thorough"
    cursor_design("C16", v, 5 if th else 4)
    v.rule = ("Gen_Curve(FAM=flatten): paths of up to 5 ops over {M, L, Q, C, Z} with control points from an 8-point half-pixel menu, "
              "including curves as first op, directly after MoveTo and directly after Close, with tolerances 1, 1/4, 1/10, 1/16, 1/64; every "
              "two-op path (subsampled) and simulated longer ones; each flattened path is matched op by op against Flatten.tla; "
              "non-trivial = the path contains a curve (all do)")
    v.trusted = ["harness rounding of output vertices to 1/1024 px (harness/src/pathfam.rs)", "Curve.tla fine polyline and deviation bound"]
    # every op-kind string of length 2..5 (quick: 2..4) that contains a curve
    g, scs = gen_scenarios("C16", "Gen_Curve", env={"FAM": "flatten", "MODE": "strings", "NOPS": 5 if th else 4, "NVAR": 1, "SALT": seed}, timeout=1200)
    v.add_tlc(g)
    v.exhaustive = True
    g, s2 = gen_scenarios("C16", "Gen_Curve", env={"FAM": "flatten", "NOPS": 5, "NVAR": 1, "SALT": seed}, simulate=3000 if th else 400, depth=14, seed=seed, workers=1)
    v.add_tlc(g)
    scs += s2
    scs += drive("C16", "flatten", seed, 5000 if th else 800)
    scs += known_scenarios("C16", "flatten")
    scs += fixed_scenarios("C16", "flatten")
    simple_validate("C16", v, scs, "all", "Trace_Flatten", sigfn=lambda sc, tup: {"fam": "flatten", "what": tup[3]}, timeout=3000)
    # the consequence clause, observed: filling (or clipping by) the flattened path (tolerance 1/64: deviation <= 1/8 px)
    # is decided per pixel by the curve oracle of the ORIGINAL path (Curve.ClassifyFill, margin 1 + sqrt(1/2) px)
    fl = drive("C16", "curve", seed + 16, 1200 if th else 200)
    for sc in fl:
        sc["id"] = "flatfill-%s" % sc["id"]
        sc["flatten_tol"] = [1, 64]
    simple_validate("C16", v, fl, "flatfill", "Trace_Curve", sigfn=lambda sc, tup: {"fam": "flatfill", "kind": sc.get("kind")}, timeout=6000)
    v.samples = [scs[0], scs[-1]]
    return v.finish()


@prop("C07")
def c07(tier, seed):
    v = Verdicts("C07", tier, seed)
    th = tier == "thorough"
    v.rule = ("Gen_Boundary: for each of 11 call kinds (stroke, fill, fill_rect, clear, mask, draw_image_at, draw_image_with_size_at, "
              "surface copies, push_clip, contains_point, flatten) every assignment of boundary values (NaN, +-Inf, +-Max, MinPos, -0, "
              "zero, negative, huge, degenerate paths, 14 sources incl. degenerate gradients) to at most two parameter slots, after "
              "NPRE prefixes of degenerate state (zero-sized target, singular transform, inverted/empty/far clips, layers with "
              "out-of-range opacity); plus the canvas histories of the other families; each scenario runs in a child process under a "
              "watchdog in a build with overflow checks and debug assertions; non-trivial = all calls in the stated domain")
    v.trusted = ["harness catch_unwind/watchdog (harness/src/main.rs, boundary.rs)", "Domain.tla predicate for the property's provided-clause"]
    g, scs = gen_scenarios("C07", "Gen_Boundary", env={"NPRE": 4 if th else 1, "SALT": seed}, timeout=1200)
    v.add_tlc(g)
    scs += known_scenarios("C07", "boundary")
    v.exhaustive = True
    tp = execute("C07", "boundary", scs, timeout_ms=4000)
    t = validate("C07", "Trace_Boundary", tp, timeout=3000)
    v.add_tlc(t)
    v.evaluations += len(scs)
    v.traces += len(scs)
    recs = read_ndjson(tp)
    for tup in t.tuples("NT"):
        v.nontrivial.add(("b", tup[1]))
    v.extra["out_of_domain_scenarios"] = len(t.tuples("OUT"))
    for tup in t.tuples("BAD"):
        sc = scs[tup[1] - 1]
        det = tup[4] if len(tup) > 4 else None
        msg = det[2] if isinstance(det, list) and len(det) > 2 else ""
        op = det[1] if isinstance(det, list) and len(det) > 1 else "?"
        mode = None
        for c in sc["calls"]:
            if c.get("op") == op and isinstance(c.get("opts"), dict):
                mode = c["opts"].get("blend")
        v.violation(sc, {"what": tup[3], "detail": det,
                         "sig": {"fam": "boundary", "tag": "C07", "what": tup[3], "op": op, "nonsep_mode": mode in NONSEP,
                                 "panic_class": "overflow" if "overflow" in msg else "premul_assert" if "<= a" in msg else "other"}})
    # the canvas histories are also subject to the no-panic clause
    scs2 = canvas_gen("C07", v, "frame", 2, 10 if th else 4, salt=seed + 7)
    scs2 += canvas_gen("C07", v, "layer", 4, 3, draws=2, simulate=2000 if th else 300, depth=8, seed=seed, salt=seed + 7)
    scs2 += drive("C07", "canvas", seed + 600, 3000 if th else 400)
    scs2 += known_scenarios("C07", "canvas")
    scs2 += repo_test_scenarios("C07", v)
    canvas_validate("C07", v, scs2, "canvas", {"C07"})
    # in-domain geometry with decimal coordinates (curves, arcs - thousands of monotonicity tests and unit divides with
    # unrounded f32 values -, arbitrary well-conditioned transforms; fills, clips, strokes): none may panic, abort or hang
    geo = drive("C07", "curve-float", seed + 7, 6000 if th else 1500) + drive("C07", "stroke-float", seed + 7, 2000 if th else 500)
    for g in geo:
        g.pop("quantize", None)       # (no outline needed: only the outcome is examined)
        g["light"] = True
    geo += drive("C07", "arc-fuzz", seed + 7, 40000 if th else 8000)
    # quadratics / cubics whose start, control or end ordinates differ by subnormal or tiny amounts (the unit divide of the
    # monotonic chopping underflows to 0 or rounds to 1), as fills, clips and strokes
    tinies = ["1e-45", "-1e-45", "3e-42", "-7e-40", "1.2e-38", "-1.2e-38", "1e-30", "-1e-25", "1e-10"]
    k = 0
    for ty in tinies:
        for (x0, x1, x2, y2) in ((4, 16, 28, 20), (28, 3, 4, -20), (4, 4, 4, 9), (2, 30, 2, 1e-3)):
            for ops in ([["M", x0, ty], ["Q", x1, 0, x2, y2]], [["M", x0, 0], ["Q", x1, ty, x2, y2]],
                        [["M", x0, y2], ["Q", x1, ty, x2, 0]], [["M", x0, y2], ["Q", x1, 0, x2, ty]],
                        [["M", x0, ty], ["C", x1, 0, x1, ty, x2, y2]], [["M", ty, x0], ["Q", 0, x1, y2, x2], ["Z"]]):
                k += 1
                geo.append({"id": "tiny-level-%d" % k, "fam": "stroke", "kind": ("fill", "clip", "stroke")[k % 3], "w": 32, "h": 24, "den": 1,
                            "ops": ops, "rule": "NonZero", "ctm": {"m": [1, 0, 0, 1, 0, 0], "mden": 1}, "light": True,
                            "style": {"width": 2, "cap": "Butt", "join": "Miter", "miter": [4, 1]}})
    t, _ = simple_validate("C07", v, geo, "geometry", "Trace_NoPanic", sigfn=lambda sc, tup: {"fam": "geometry", "what": tup[3] if len(tup) > 3 else "?"})
    v.samples = [scs[0], scs[len(scs) // 2], scs2[0]]
    return v.finish()
