import argparse
import json
import os
import subprocess
import sys
import traceback

from . import core
from .core import ToolError, log


def main(argv):
    if not argv:
        print(__doc__)
        return 2
    if argv[0] == "setup":
        try:
            core.build_harness()
            # SANY-parse every module once so a broken spec is found at setup
            return 0
        except ToolError as e:
            log("setup failed: %s" % e)
            return 2
    if argv[0] == "selftest":
        from . import selftest
        try:
            return selftest.main()
        except ToolError as e:
            log("TOOL ERROR: %s" % e)
            return 2
    ap = argparse.ArgumentParser()
    ap.add_argument("pid")
    ap.add_argument("--tier", default=os.environ.get("VERIF_TIER", "quick"))
    ap.add_argument("--replay", default=None)
    ap.add_argument("--no-build", action="store_true")
    a = ap.parse_args(argv)
    seed = int(os.environ.get("VERIF_SEED", "1"))
    from . import props
    fn = props.REGISTRY.get(a.pid)
    if fn is None:
        log("unknown property %s" % a.pid)
        return 2
    try:
        if not a.no_build:
            core.build_harness()
        if a.replay:
            return props.replay(a.pid, a.replay)
        return fn(a.tier, seed)
    except ToolError as e:
        log("TOOL ERROR: %s" % e)
        return 2
    except subprocess.TimeoutExpired as e:
        log("TOOL TIMEOUT: %s" % e)
        return 2
    except Exception:
        traceback.print_exc()
        return 2
