"""Shared machinery for the raqote verification checks: harness build, TLC runs,
trace plumbing, evidence, known findings, exit codes."""
import hashlib
import json
import os
import re
import shutil
import subprocess
import sys
import time

VERIF = os.path.dirname(os.path.dirname(os.path.abspath(__file__)))
SPEC = os.path.join(VERIF, "spec")
HARNESS = os.path.join(VERIF, "harness")
WORK = os.path.join(VERIF, "work")
EVID = os.path.join(VERIF, "evidence")
REPLAYS = os.path.join(VERIF, "replays")
FINDINGS = os.path.join(VERIF, "findings")
# development aid (tools/lab.py): run the same checks against a scratch copy of the repository with a change
# applied, without touching /repo and without overwriting this tree's evidence.  Never set by registered commands.
LAB = os.environ.get("VERIF_LAB")
if LAB:
    HARNESS = os.path.join(LAB, "harness")
    WORK = os.path.join(LAB, "out", "work")
    EVID = os.path.join(LAB, "out", "evidence")
    REPLAYS = os.path.join(LAB, "out", "replays")
    for _d in (WORK, EVID, REPLAYS):
        os.makedirs(_d, exist_ok=True)
BIN = os.path.join(HARNESS, "target", "debug", "rqconf")
TLA_JAR = "/opt/veriftools/tla/tla2tools.jar:/opt/veriftools/tla/CommunityModules-deps.jar"


class ToolError(Exception):
    pass


def log(*a):
    print(*a, file=sys.stderr, flush=True)


def workdir(pid):
    d = os.path.join(WORK, pid)
    os.makedirs(d, exist_ok=True)
    return d


def build_harness():
    """Rebuild the conformance harness against /repo's current working tree."""
    t0 = time.time()
    env = dict(os.environ)
    env["CARGO_NET_OFFLINE"] = "true"
    p = subprocess.run(["cargo", "build", "--offline", "-q"], cwd=HARNESS, env=env,
                       stdout=subprocess.PIPE, stderr=subprocess.STDOUT, text=True)
    if p.returncode != 0:
        raise ToolError("harness build failed:\n" + p.stdout[-4000:])
    log("[build] harness %.1fs" % (time.time() - t0))
    return time.time() - t0


def run_harness(args, stdin=None, timeout=3600):
    p = subprocess.run([BIN] + args, input=stdin, stdout=subprocess.PIPE, stderr=subprocess.PIPE,
                       text=True, timeout=timeout)
    if p.returncode != 0:
        raise ToolError("harness %s failed (%d): %s" % (args[:2], p.returncode, p.stderr[-3000:]))
    return p.stdout


class TlcResult:
    def __init__(self):
        self.generated = 0
        self.distinct = 0
        self.printed = []      # raw printed values (strings)
        self.invariant_violated = None
        self.error = None
        self.wall = 0.0
        self.out = ""
        self.coverage = {}

    def tuples(self, tag):
        """Printed TLA+ tuples of the form <<"tag", ...>>, parsed into python lists."""
        res = []
        for ln in self.printed:
            if ln.startswith('<<"%s"' % tag):
                try:
                    res.append(parse_tla(ln))
                except Exception:
                    # a value this parser does not know: keep the leading scalar fields (tag, indices, names), so that
                    # the report is still filed instead of turning into a tool error
                    head = []
                    for m in re.finditer(r'\s*(?:"((?:[^"\\]|\\.)*)"|(-?\d+)|(TRUE|FALSE))\s*,', ln[2:]):
                        if m.start() != (0 if not head else head_end):
                            break
                        head.append(m.group(1) if m.group(1) is not None else int(m.group(2)) if m.group(2) is not None else m.group(3) == "TRUE")
                        head_end = m.end()
                    res.append(head + [None] * 4)
        return res


def _balanced(s):
    depth = 0
    instr = False
    i = 0
    while i < len(s):
        ch = s[i]
        if instr:
            if ch == "\\":
                i += 1
            elif ch == '"':
                instr = False
        elif ch == '"':
            instr = True
        elif ch in "<[{(":
            if ch == "<" and not s.startswith("<<", i):
                pass
            elif ch == "<":
                depth += 1
                i += 1
            else:
                depth += 1
        elif ch in ">]})":
            if ch == ">" and not s.startswith(">>", i):
                pass
            elif ch == ">":
                depth -= 1
                i += 1
            else:
                depth -= 1
        i += 1
    return depth == 0


def parse_tla(s):
    """Parse a printed TLA+ value consisting of tuples, sets, strings, ints, booleans, records."""
    pos = [0]

    def ws():
        while pos[0] < len(s) and s[pos[0]] in " \n\t":
            pos[0] += 1

    def val():
        ws()
        if s.startswith("<<", pos[0]):
            pos[0] += 2
            items = []
            ws()
            if s.startswith(">>", pos[0]):
                pos[0] += 2
                return items
            while True:
                items.append(val())
                ws()
                if s.startswith(">>", pos[0]):
                    pos[0] += 2
                    return items
                assert s[pos[0]] == ",", (s, pos[0])
                pos[0] += 1
        if s[pos[0]] == "{":
            pos[0] += 1
            items = []
            ws()
            if s[pos[0]] == "}":
                pos[0] += 1
                return items
            while True:
                items.append(val())
                ws()
                if s[pos[0]] == "}":
                    pos[0] += 1
                    return items
                assert s[pos[0]] == ",", (s, pos[0])
                pos[0] += 1
        if s[pos[0]] == "[":
            pos[0] += 1
            rec = {}
            while True:
                ws()
                m = re.match(r"[A-Za-z_0-9]+", s[pos[0]:])
                k = m.group(0)
                pos[0] += len(k)
                ws()
                assert s.startswith("|->", pos[0]), (s, pos[0])
                pos[0] += 3
                rec[k] = val()
                ws()
                if s[pos[0]] == "]":
                    pos[0] += 1
                    return rec
                assert s[pos[0]] == ",", (s, pos[0])
                pos[0] += 1
        if s[pos[0]] == '"':
            j = pos[0] + 1
            out = []
            while s[j] != '"':
                if s[j] == "\\":
                    j += 1
                out.append(s[j])
                j += 1
            pos[0] = j + 1
            return "".join(out)
        m = re.match(r"(-?\d+)\.\.(-?\d+)", s[pos[0]:])
        if m:       # an integer interval a..b, kept symbolic
            pos[0] += len(m.group(0))
            return {"interval": [int(m.group(1)), int(m.group(2))]}
        m = re.match(r"-?\d+", s[pos[0]:])
        if m:
            pos[0] += len(m.group(0))
            return int(m.group(0))
        m = re.match(r"TRUE|FALSE", s[pos[0]:])
        if m:
            pos[0] += len(m.group(0))
            return m.group(0) == "TRUE"
        raise ValueError("cannot parse TLA value at %d: %r" % (pos[0], s[pos[0]:pos[0] + 40]))

    return val()


def run_tlc(pid, module, cfg=None, env=None, workers=8, timeout=600, simulate=None, depth=None,
            seed=None, heap="6g", coverage=False, extra=None, allow_violation=False, dfs=False):
    """Run TLC on spec/<module>.tla with spec/<cfg>.cfg.  Returns TlcResult.
    A TLC-level failure (parse error, evaluation error, time-out) raises ToolError; an
    invariant violation is returned (allow_violation) or raised."""
    cfg = cfg or module
    meta = os.path.join(workdir(pid), "tlc_%s_%d" % (cfg, os.getpid()))
    shutil.rmtree(meta, ignore_errors=True)
    os.makedirs(meta, exist_ok=True)
    jopts = "-Xss1g"
    if dfs:
        jopts += " -Dtlc2.tool.queue.IStateQueue=StateDeque"
    jopts += " -Djava.io.tmpdir=" + meta       # (TLC leaves an empty tlc-* directory per run in the temp dir)
    e = dict(os.environ)
    e["JAVA_TOOL_OPTIONS"] = jopts
    if env:
        e.update({k: str(v) for k, v in env.items()})
    cmd = ["timeout", str(int(timeout)), "java", "-Xss1g", "-XX:+UseParallelGC", "-Xmx" + heap, "-cp", TLA_JAR,
           "tlc2.TLC", "-workers", str(workers), "-metadir", meta, "-cleanup", "-noGenerateSpecTE",
           "-config", os.path.join(SPEC, cfg + ".cfg")]
    if coverage:
        cmd += ["-coverage", "1"]
    if simulate is not None:
        cmd += ["-simulate", "num=%d" % simulate]
        if depth:
            cmd += ["-depth", str(depth)]
    if seed is not None:
        cmd += ["-seed", str(seed)]
    if extra:
        cmd += extra
    cmd += [os.path.join(SPEC, module + ".tla")]
    t0 = time.time()
    p = subprocess.run(cmd, cwd=SPEC, env=e, stdout=subprocess.PIPE, stderr=subprocess.STDOUT, text=True,
                       errors="replace")
    r = TlcResult()
    r.wall = time.time() - t0
    r.out = p.stdout
    shutil.rmtree(meta, ignore_errors=True)
    acc = None
    for ln in p.stdout.splitlines():
        if acc is not None:
            acc.append(ln.strip())
            joined = " ".join(acc)
            if _balanced(joined):
                r.printed.append(joined.replace("<< ", "<<", 1) if joined.startswith("<< ") else joined)
                acc = None
            continue
        if ln.startswith("<<") or ln.startswith('"'):
            if ln.startswith('"') or _balanced(ln):
                r.printed.append(ln.replace("<< ", "<<", 1) if ln.startswith("<< ") else ln)
            else:
                acc = [ln.strip()]
        m = re.match(r"(\d+) states generated, (\d+) distinct states found", ln)
        if m:
            r.generated = int(m.group(1))
            r.distinct = int(m.group(2))
        m = re.match(r"The number of states generated: (\d+)", ln)
        if m:
            r.generated = int(m.group(1))
        m = re.match(r"Error: Invariant (\S+) is violated", ln)
        if m:
            r.invariant_violated = m.group(1)
    with open(os.path.join(workdir(pid), "tlc_%s.log" % cfg), "w") as f:
        f.write(p.stdout)
    if p.returncode == 124:
        raise ToolError("TLC timed out after %ds on %s" % (timeout, cfg))
    ok_codes = (0,)
    if r.invariant_violated:
        if allow_violation:
            return r
        raise ToolError("TLC: invariant %s violated in %s (see work/%s/tlc_%s.log)" % (
            r.invariant_violated, cfg, pid, cfg))
    if p.returncode not in ok_codes:
        tail = "\n".join(p.stdout.splitlines()[-40:])
        raise ToolError("TLC failed (%d) on %s:\n%s" % (p.returncode, cfg, tail))
    log("[tlc] %s: %d generated, %d distinct, %.1fs" % (cfg, r.generated, r.distinct, r.wall))
    return r


def to_tla(v):
    """Inverse of parse_tla (sets are printed back as sets of their list elements)."""
    if isinstance(v, bool):
        return "TRUE" if v else "FALSE"
    if isinstance(v, int):
        return str(v)
    if isinstance(v, str):
        return '"' + v.replace("\\", "\\\\").replace('"', '\\"') + '"'
    if isinstance(v, dict):
        return "[" + ", ".join("%s |-> %s" % (k, to_tla(x)) for k, x in v.items()) + "]"
    return "<<" + ", ".join(to_tla(x) for x in v) + ">>"


def json_lines_from_printed(printed):
    """PrintT(ToJson(x)) prints a TLA+ string literal; recover the JSON values."""
    out = []
    for ln in printed:
        if ln.startswith('"'):
            try:
                out.append(json.loads(json.loads(ln)))
            except Exception:
                pass
    return out


def write_ndjson(path, items):
    with open(path, "w") as f:
        for it in items:
            f.write(json.dumps(it, separators=(",", ":")))
            f.write("\n")


def read_ndjson(path):
    res = []
    with open(path) as f:
        for ln in f:
            ln = ln.strip()
            if ln:
                res.append(json.loads(ln))
    return res


def scen_hash(obj):
    return hashlib.sha1(json.dumps(obj, sort_keys=True).encode()).hexdigest()[:12]


# ----------------------------------------------------------------------------
# known findings
# ----------------------------------------------------------------------------
def load_known():
    p = os.path.join(VERIF, "known_findings.json")
    if not os.path.exists(p):
        return {"known": [], "fixed": []}
    return json.load(open(p))


class Verdicts:
    """Collects violations for one property run, matches them against known findings,
    writes replay files and evidence, and computes the exit code."""

    def __init__(self, pid, tier, seed):
        self.pid = pid
        self.tier = tier
        self.seed = seed
        self.t0 = time.time()
        self.violations = []      # (scenario, detail)
        self.known_hit = []
        self.states = 0
        self.transitions = 0
        self.traces = 0
        self.evaluations = 0
        self.nontrivial = set()
        self.samples = []
        self.extra = {}
        self.assumptions = []
        self.trusted = []
        self.rule = ""
        self.inconclusive = 0
        self.exhaustive = False

    def add_tlc(self, r):
        self.states += r.distinct if r.distinct else r.generated
        self.transitions += r.generated

    def violation(self, scenario, detail):
        self.violations.append((scenario, detail))

    def finish(self):
        known = [k for k in load_known().get("known", []) if k["property"] == self.pid]
        new = []
        for sc, detail in self.violations:
            hit = None
            for k in known:
                if match_signature(k.get("signature", {}), sc, detail):
                    hit = k
                    break
            if hit:
                if hit["id"] not in [h["id"] for h in self.known_hit]:
                    self.known_hit.append(hit)
            else:
                new.append((sc, detail))
        os.makedirs(EVID, exist_ok=True)
        classes = {}
        for sc, detail in new:
            key = json.dumps(detail.get("sig", {}), sort_keys=True) if isinstance(detail, dict) else "?"
            classes[key] = classes.get(key, 0) + 1
        self.extra["new_violation_classes"] = classes
        if classes:
            log("[%s] violation classes: %s" % (self.pid, json.dumps(classes)[:1500]))
        ev = {
            "property_id": self.pid, "tier": self.tier, "seed": self.seed, "level": "model_checking",
            "coverage": dict({
                "states": max(1, self.states), "transitions": max(1, self.transitions),
                "traces_validated_against_impl": self.traces,
                "samples": self.samples[:6] if self.samples else ["(none)"],
                "evaluations": self.evaluations,
                "distinct_nontrivial": len(self.nontrivial),
                "rule": self.rule,
                "inconclusive": self.inconclusive,
                "exhaustive": self.exhaustive,
                "trusted_base": self.trusted,
                "known_findings_hit": [k["id"] for k in self.known_hit],
            }, **self.extra),
            "assumptions": self.assumptions,
            "wall_s": round(time.time() - self.t0, 2),
            "violations": len(new),
        }
        with open(os.path.join(EVID, self.pid + ".json"), "w") as f:
            json.dump(ev, f, indent=1)
        for k in self.known_hit:
            print("KNOWN-FINDING: property=%s %s" % (self.pid, k["what"]))
        if new:
            os.makedirs(REPLAYS, exist_ok=True)
            seen = set()
            for sc, detail in new[:20]:
                h = scen_hash(sc)
                if h in seen:
                    continue
                seen.add(h)
                path = os.path.join(REPLAYS, "%s-%s.json" % (self.pid, h))
                with open(path, "w") as f:
                    json.dump({"property": self.pid, "scenario": sc, "detail": detail}, f, indent=1)
                print("VIOLATION property=%s replay=%s" % (self.pid, path))
                log("   detail: %s" % json.dumps(detail)[:600])
            log("[%s] %d violation(s) (%d distinct shown)" % (self.pid, len(new), len(seen)))
            return 1
        log("[%s] ok: %d evaluations, %d traces validated, %.1fs" % (
            self.pid, self.evaluations, self.traces, time.time() - self.t0))
        return 0


def match_signature(sig, sc, detail):
    """A known finding matches by a structural signature: every key of the signature
    must be present with that value in the scenario summary `detail['sig']`."""
    if not sig:
        return False
    have = detail.get("sig", {}) if isinstance(detail, dict) else {}
    for k, v in sig.items():
        if have.get(k) != v:
            return False
    return True
