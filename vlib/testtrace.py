"""Traces recorded from the repository's own unit tests (API tracer, /repo/src/verif_trace.rs under --cfg raqote_verif).

record(): builds and runs `cargo test --lib` of /repo's working tree with the tracer on (own target dir under work/),
convert(): turns every recorded target into a canvas scenario (calls + the pixel states the recorded run had), which the
harness replays with full observation (shadow targets, shade probes) and must reproduce pixel for pixel; Trace_Canvas then
validates the replayed execution like any TLC-generated one."""
import glob
import json
import os
import shutil
import subprocess
from fractions import Fraction

from . import core
from .core import ToolError, log

REPO = "/repo"


def record(pid):
    w = core.workdir(pid)
    tdir = os.path.join(w, "testtrace")
    shutil.rmtree(tdir, ignore_errors=True)
    os.makedirs(tdir)
    env = dict(os.environ)
    env["CARGO_NET_OFFLINE"] = "true"
    env["RUSTFLAGS"] = "--cfg raqote_verif --check-cfg cfg(raqote_verif)"
    env["CARGO_TARGET_DIR"] = os.path.join(core.WORK, "testtrace_target")
    env["RAQOTE_VERIF_TRACE"] = tdir
    repo = os.path.join(core.LAB, "repo") if core.LAB else REPO
    p = subprocess.run(["cargo", "test", "--lib", "--offline", "-q"], cwd=repo, env=env, stdout=subprocess.PIPE, stderr=subprocess.STDOUT,
                       text=True, timeout=600)
    tail = p.stdout[-1500:]
    # a failing unit test is not this check's business (the recorded calls are still valid executions), a build failure is
    if "test result" not in p.stdout:
        raise ToolError("recording the repository's tests failed:\n" + tail)
    return tdir


DYADIC = 64


def _fr(s):
    """recorded float string -> Fraction, or None when not finite"""
    try:
        x = float(s)
    except ValueError:
        return None
    if x != x or x in (float("inf"), float("-inf")):
        return None
    return Fraction(x)


def _tok(s):
    x = float(s)
    if x != x:
        return "NaN"
    if x == float("inf"):
        return "Inf"
    if x == float("-inf"):
        return "-Inf"
    return s


class Scaler:
    """collects den-scaled coordinates; decides whether all lie on a dyadic lattice"""

    def __init__(self):
        self.vals = []

    def add(self, s):
        self.vals.append(s)

    def den(self):
        d = 1
        for s in self.vals:
            f = _fr(s)
            if f is None or (f * DYADIC).denominator != 1 or abs(f) > 8192 or (f == 0 and s.startswith("-")):
                return None
            d = max(d, f.denominator)
        return d


def _unit(s):
    """unscaled parameter (alpha, opacity, miter, matrix entry): int, [n, d] with small d, or the float token"""
    f = _fr(s)
    if f is None or (f == 0 and s.startswith("-")):
        return _tok(s)
    if f.denominator <= 256 and abs(f.numerator) < 2 ** 20:
        return [f.numerator, f.denominator]
    return _tok(s)


def _matrix(m):
    """six recorded floats -> (m, mden): integers over a dyadic mden when possible"""
    fs = [_fr(x) for x in m]
    if all(f is not None and (f * 256).denominator == 1 and abs(f) < 4096 and not (f == 0 and x.startswith("-")) for f, x in zip(fs, m)):
        d = max(f.denominator for f in fs)
        return [int(f * d) for f in fs], d
    return [_tok(x) for x in m], 1


SCALED_PATH = True


def _convert_call(c, den):
    """second pass: rewrite the recorded strings of a call given the scenario's den (None = not on a lattice)"""
    def sc(s):
        if den is None:
            return _tok(s)
        return int(_fr(s) * den)

    def src(v):
        v = dict(v)
        if "m" in v:
            v["m"], v["mden"] = _matrix(v["m"])
        if "stops" in v:
            v["stops"] = [[_tok(p), col] for p, col in v["stops"]]
        for k in ("r1", "r2", "start_angle", "end_angle"):
            if k in v:
                v[k] = _tok(v[k])
        for k in ("c1", "c2"):
            if k in v:
                v[k] = [_tok(x) for x in v[k]]
        return v

    def opts(o):
        o = dict(o)
        o["alpha"] = _unit(o["alpha"])
        return o

    c = dict(c)
    op = c["op"]
    if op == "set_transform":
        c["m"], c["mden"] = _matrix(c["m"])
    if "path" in c:
        c["path"] = {"ops": [[o[0]] + [sc(x) for x in o[1:]] for o in c["path"]["ops"]], "winding": c["path"]["winding"]}
    if op == "fill_rect":
        c["r"] = [sc(x) for x in c["r"]]
    if op in ("draw_image_at", "draw_image_with_size_at"):
        for k in ("x", "y", "w", "h"):
            if k in c:
                c[k] = sc(c[k])
    if "src" in c:
        c["src"] = src(c["src"])
    if "opts" in c:
        c["opts"] = opts(c["opts"])
    if "style" in c:
        st = dict(c["style"])
        # widths and dashes are lengths: on the same lattice as the path
        st["width"] = sc(st["width"])
        st["miter"] = _unit(st["miter"])
        if "dash" in st:
            st["dash"] = [sc(x) for x in st["dash"]]
            st["dash_offset"] = sc(st["dash_offset"])
        c["style"] = st
    if op == "push_layer":
        c["opacity"] = _unit(c["opacity"])
    if op == "blend_surface_with_alpha":
        c["alpha"] = _unit(c["alpha"])
    return c


def _scaled_values(c, S):
    if "path" in c:
        for o in c["path"]["ops"]:
            for x in o[1:]:
                S.add(x)
    if c["op"] == "fill_rect":
        for x in c["r"]:
            S.add(x)
    if c["op"] in ("draw_image_at", "draw_image_with_size_at"):
        for k in ("x", "y", "w", "h"):
            if k in c:
                S.add(c[k])
    if "style" in c:
        S.add(c["style"]["width"])
        for x in c["style"].get("dash", []):
            S.add(x)
        if "dash_offset" in c["style"]:
            S.add(c["style"]["dash_offset"])


NOT_CALLS = ("observe", "new")


def convert(tdir):
    """-> (scenarios, stats)"""
    scs = []
    stats = {"files": 0, "events": 0, "targets": 0, "calls": 0, "truncated": 0, "unverified_last_calls": 0}
    for fn in sorted(glob.glob(os.path.join(tdir, "*.ndjson"))):
        stats["files"] += 1
        by_id = {}
        for ln in open(fn):
            ln = ln.strip()
            if not ln:
                continue
            e = json.loads(ln)
            stats["events"] += 1
            by_id.setdefault(e["id"], []).append(e)
        test = os.path.basename(fn)[:-7].replace("tests..tests..", "")
        for tid, evs in sorted(by_id.items()):
            evs = [e for e in evs if e["call"]["op"] != "new"]
            if not evs or evs[0]["w"] * evs[0]["h"] == 0:
                continue
            calls, recorded = [], []
            init = evs[0]["pix"]
            for k, e in enumerate(evs):
                op = e["call"]["op"]
                if op in ("mutate", "unsupported"):
                    stats["truncated"] += 1
                    break
                if op == "observe":
                    continue
                calls.append(e["call"])
                recorded.append(evs[k + 1]["pix"] if k + 1 < len(evs) else None)
            if not calls:
                continue
            if recorded[-1] is None:
                stats["unverified_last_calls"] += 1
            S = Scaler()
            for c in calls:
                _scaled_values(c, S)
            den = S.den()
            scs.append({"id": "repo-test:%s#%d" % (test, tid), "fam": "canvas", "w": evs[0]["w"], "h": evs[0]["h"],
                        "den": den if den is not None else 1, "init": init, "fresh": True,
                        "calls": [_convert_call(c, den) for c in calls], "recorded": recorded})
            stats["targets"] += 1
            stats["calls"] += len(calls)
    return scs, stats
