"""./check selftest -- binding and vacuity demonstrations (not part of any property's command).
1. Trace corruption: one recorded field of a real trace is changed (a pixel channel, a stack depth, the
   idle flag, the transform bits, a dropped event); the trace validator must report it.
2. Pinned I-specs: the implementation-level machines configured as the pinned commit's code must FAIL
   their refinement invariants (and pass as repaired, which the property checks run)."""
import copy
import json
import os
import shutil

from . import core, props
from .core import log, run_tlc, ToolError


def _canvas_trace():
    sc = {"id": "selftest", "fam": "canvas", "w": 4, "h": 4, "den": 4, "init": "distinct", "fresh": True, "calls": [
        {"op": "push_clip_rect", "r": [1, 0, 4, 4]},
        {"op": "push_layer", "opacity": [1, 2]},
        {"op": "fill", "path": {"ops": [["M", 0, 0], ["L", 16, 0], ["L", 0, 16], ["Z"]]},
         "src": {"kind": "solid", "c": [255, 255, 0, 0]}, "opts": {"blend": "SrcOver", "alpha": [1, 1], "aa": True}},
        {"op": "pop_layer"},
        {"op": "fill_rect", "r": [4, 4, 8, 8], "src": {"kind": "solid", "c": [128, 0, 128, 0]}, "opts": {"blend": "Xor", "alpha": [1, 2], "aa": True}},
        {"op": "pop_clip"}]}
    tp = props.execute("selftest", "base", [sc])
    return core.read_ndjson(tp)[0]


def _validate(rec, name):
    path = os.path.join(core.workdir("selftest"), name + ".ndjson")
    core.write_ndjson(path, [rec])
    r = run_tlc("selftest", "Trace_Canvas", env={"TRACE": path}, workers=2, timeout=300)
    tags = set()
    for ln in r.printed:
        if ln.startswith('<<"') and not ln.startswith('<<"SUM') and not ln.startswith('<<"INC'):
            tags.add(core.parse_tla(ln)[0])
    return tags


def main():
    core.build_harness()
    ok = True

    def expect(name, cond, detail):
        nonlocal ok
        print("%-58s %s  %s" % (name, "PASS" if cond else "FAIL", detail))
        ok = ok and cond

    base = _canvas_trace()
    expect("unmodified trace is accepted", _validate(base, "t0") == set(), "")
    # 1a pixel channel of the fill_rect event on the main target
    r = copy.deepcopy(base)
    ev = [e for e in r["targets"][0]["events"] if e["call"]["op"] == "fill_rect"][0]
    ev["after"][6][2] ^= 1
    t = _validate(r, "t1")
    expect("one pixel channel changed (inside the shape)", "C03" in t, str(t))
    r = copy.deepcopy(base)
    ev = [e for e in r["targets"][0]["events"] if e["call"]["op"] == "fill_rect"][0]
    ev["after"][0][1] ^= 1
    t = _validate(r, "t2")
    expect("one pixel channel changed (outside the clip)", "C02" in t, str(t))
    # 1b depths, idle, transform bits
    for field, val, tag in (("depths", [0, 0], "C06D"), ("idle", False, "C10I"), ("mb", [[16256, 0], [0, 0], [0, 0], [16256, 0], [16000, 0], [0, 0]], "C11T")):
        r = copy.deepcopy(base)
        r["targets"][0]["events"][1][field] = val
        t = _validate(r, "t_" + field)
        expect("recorded %s corrupted" % field, tag in t, str(t))
    # 1c the fill inside the layer is made visible on the surface (as if it ignored the layer)
    r = copy.deepcopy(base)
    ev = r["targets"][0]["events"][2]
    ev["after"] = copy.deepcopy(r["targets"][1]["events"][0]["after"])
    t = _validate(r, "t_layer")
    expect("draw inside a layer shows on the surface", "C06L" in t, str(t))
    # 1d an event dropped: the next recorded pixels no longer follow from the specification's state
    r = copy.deepcopy(base)
    del r["targets"][0]["events"][3]          # pop_layer
    t = _validate(r, "t_drop")
    expect("pop_layer event dropped", len(t) > 0, str(t))
    # 1e fresh replay differs
    r = copy.deepcopy(base)
    ev = [e for e in r["targets"][0]["events"] if "fresh" in e][0]
    ev["fresh"][5][1] ^= 2
    t = _validate(r, "t_fresh")
    expect("fresh-replay pixels differ", "C10" in t, str(t))

    # 2 pinned implementation-level machines must fail
    for mod, cfg, env in (("MC_Dash", "MC_Dash_pinned", {}), ("MC_CanvasImpl", "MC_CanvasImpl_pinned", {"D": 3}),
                          ("MC_CanvasImpl", "MC_CanvasImpl_cross", {"D": 3}),
                          ("MC_Dash", "MC_Dash_pinned4", {"TWO": 1, "MAXL": 3, "MAXSEG": 2, "OFFR": 2, "ARR3": 0}),
                          ("MC_Dash", "MC_Dash_pinned5", {"TWO": 1, "MAXL": 3, "MAXSEG": 2, "OFFR": 2, "ARR3": 0}),
                          ("MC_Stroke", "MC_Stroke_pinned", {"LEN": 4}),
                          ("MC_Surface", "MC_Surface", {"FIXED": 0, "MAXSIZE": 1}),
                          ("MC_Cursor", "MC_Cursor", {"PINNED": 1, "N": 3}), ("MC_Cursor", "MC_Cursor", {"PINNED": 2, "N": 3}),
                          ("MC_Cursor", "MC_Cursor", {"PINNED": 3, "N": 3}), ("MC_Cursor", "MC_Cursor", {"PINNED": 4, "N": 3})):
        r = run_tlc("selftest", mod, cfg=cfg, env=env, workers=8, timeout=900, allow_violation=True)
        expect("%s as the pinned code violates its refinement" % mod, r.invariant_violated is not None, str(r.invariant_violated))
    # mutated Raster.tla (span rounding constant) must fail RefinesCoverage
    d = os.path.join(core.workdir("selftest"), "mutspec")
    shutil.rmtree(d, ignore_errors=True)
    shutil.copytree(core.SPEC, d)
    p = os.path.join(d, "Raster.tla")
    s = open(p).read().replace("RoundQ(fx) == Shr(fx + 8192, 14)", "RoundQ(fx) == Shr(fx, 14)")
    open(p, "w").write(s)
    spec_saved = core.SPEC
    try:
        core.SPEC = d
        r = run_tlc("selftest", "MC_Raster", env={"N": 3}, workers=12, timeout=900, allow_violation=True)
    finally:
        core.SPEC = spec_saved
        shutil.rmtree(d, ignore_errors=True)
    expect("Raster.tla with the span rounding removed violates RefinesCoverage", r.invariant_violated == "RefinesCoverage", str(r.invariant_violated))
    # mutated CurveEdge.tla (cheap_distance without |dy|) must fail the flattening bound
    shutil.copytree(core.SPEC, d)
    p = os.path.join(d, "CurveEdge.tla")
    s = open(p).read().replace("ay == Abs(dy)", "ay == dy")
    open(p, "w").write(s)
    try:
        core.SPEC = d
        r = run_tlc("selftest", "MC_CurveEdge", env={"MAXC": 96, "STEP": 16, "OFFS": 0}, workers=12, timeout=900, allow_violation=True)
    finally:
        core.SPEC = spec_saved
        shutil.rmtree(d, ignore_errors=True)
    expect("CurveEdge.tla with cheap_distance lacking |dy| violates Flat or Tracks", r.invariant_violated in ("Flat", "Tracks"), str(r.invariant_violated))
    # a recorded curve edge with one x position changed is a DRIFT; the dash output with one vertex moved is a DRIFT
    from .props import drive, execute, validate, read_ndjson
    for fam, mod, mut in (("curveedge", "Trace_CurveEdge", lambda rec: rec["res"][0]["xs"].__setitem__(0, rec["res"][0]["xs"][0] + 1)),
                          ("dashops", "Trace_DashOps", lambda rec: [o.__setitem__(1, o[1] + 64) for o in rec["dash_ops"] if o[0] == "L"]),
                          ("stroke", "Trace_StrokeOps", lambda rec: rec["stroke_polys"][0]["pts"][0].__setitem__(0, rec["stroke_polys"][0]["pts"][0][0] + 512))):
        ds = drive("selftest", fam, 1, 3)
        for sc in ds:
            sc["want_stroke_path"] = True
        tp = execute("selftest", fam, ds)
        recs = read_ndjson(tp)
        mut(recs[0])
        with open(tp, "w") as f:
            for rec in recs:
                f.write(json.dumps(rec) + "\n")
        t = validate("selftest", mod, tp, workers=2, timeout=600)
        expect("corrupted %s record is reported as DRIFT" % fam, len(t.tuples("DRIFT")) >= 1, str(t.tuples("DRIFT"))[:200])
    print("selftest:", "all demonstrations behaved" if ok else "SOME DEMONSTRATION FAILED")
    return 0 if ok else 2
