use raqote::*;
fn count(p: &Path) -> usize {
    let mut dt = DrawTarget::new(8, 8);
    dt.fill(p, &Source::Solid(SolidSource { r: 255, g: 255, b: 255, a: 255 }), &DrawOptions::new());
    dt.get_data().iter().filter(|&&x| x == 0xffffffff).count()
}
#[test]
fn first_op_curve() {
    // a path that begins with a curve: the subpath starts at the curve's first control point
    let mut pb = PathBuilder::new();
    pb.quad_to(1., 1., 1., 7.);
    pb.line_to(7., 1.);
    let p = pb.finish();
    let f = p.flatten(0.1);
    println!("{:?}", f.ops);
    let (a, b) = (count(&p), count(&f));
    println!("orig {} flat {}", a, b);
    assert!(p.contains_point(0.1, 2., 2.));
    assert!((a as i64 - b as i64).abs() <= 2, "orig {} flat {}", a, b);
}
#[test]
fn first_op_cubic() {
    let mut pb = PathBuilder::new();
    pb.cubic_to(1., 1., 1., 7., 7., 7.);
    pb.line_to(7., 1.);
    let p = pb.finish();
    let f = p.flatten(0.1);
    println!("{:?}", f.ops);
    let (a, b) = (count(&p), count(&f));
    assert!((a as i64 - b as i64).abs() <= 2, "orig {} flat {}", a, b);
}
