use raqote::*;
fn render(p: &Path, dash: Vec<f32>, off: f32) -> Vec<u32> {
    let mut dt = DrawTarget::new(24, 24);
    let st = StrokeStyle { width: 3., dash_array: dash, dash_offset: off, ..Default::default() };
    dt.stroke(p, &Source::Solid(SolidSource { r: 255, g: 255, b: 255, a: 255 }), &st, &DrawOptions::new());
    dt.get_data().to_vec()
}
fn show(d: &[u32]) {
    for y in 8..16 { let mut s = String::new(); for x in 5..20 { s.push(if d[y * 24 + x] >> 24 > 128 { '#' } else if d[y*24+x] != 0 { '+' } else { '.' }); } println!("{}", s); }
}
#[test]
fn lead() {
    let mut pb = PathBuilder::new();
    pb.move_to(10., 11.); pb.line_to(12., 11.); pb.line_to(17., 11.); pb.close();
    pb.line_to(10., 12.); pb.close();
    let a = render(&pb.finish(), vec![9., 5., 15.], 20.);
    println!("continued:"); show(&a);
    let mut pb = PathBuilder::new();
    pb.move_to(10., 11.); pb.line_to(12., 11.); pb.line_to(17., 11.); pb.close();
    pb.move_to(10., 11.); pb.line_to(10., 12.); pb.close();
    let b = render(&pb.finish(), vec![9., 5., 15.], 20.);
    println!("with MoveTo:"); show(&b);
    assert_eq!(a, b);
}
