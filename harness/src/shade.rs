//! C12 / C13: the colour a source produces at every pixel.  The scenario's source is rendered
//! over the whole surface with blend mode Src at full coverage, so the pixel IS the source
//! colour.  `via` selects how the source reaches the pixels: "fill" (default), "draw_image_at",
//! "draw_image_with_size_at".
use crate::canvas::{parse_transform, with_source};
use crate::util::*;
use raqote::*;
use serde_json::{json, Value};

pub fn run(sc: &Value) -> Value {
    let w = int(&sc["w"]);
    let h = int(&sc["h"]);
    let den = den_of(sc, "den", 1.0);
    let ctm = if sc.get("ctm").is_some() { parse_transform(&sc["ctm"]) } else { Transform::identity() };
    let alpha = if sc.get("alpha").is_some() { num(&sc["alpha"]) } else { 1.0 };
    let via = sc["via"].as_str().unwrap_or("fill");
    let mut dt = DrawTarget::new(w, h);
    // optional clip path (device space): the source is then drawn SrcOver onto the transparent target through the
    // clip; pixels the clip covers fully must still show the source exactly, pixels it does not cover stay empty
    let clip = sc.get("clip").map(|c| crate::canvas::parse_path(c, 1.0));
    let mut clipcov: Option<Vec<u32>> = None;
    if let Some(cp) = &clip {
        let mut probe = DrawTarget::new(w, h);
        probe.push_clip(cp);
        probe.fill_rect(0., 0., w as f32, h as f32, &Source::Solid(SolidSource { r: 255, g: 255, b: 255, a: 255 }), &DrawOptions::new());
        clipcov = Some(probe.get_data().iter().map(|p| p >> 24).collect());
    }
    let r = std::panic::catch_unwind(std::panic::AssertUnwindSafe(|| {
        if let Some(cp) = &clip {
            dt.push_clip(cp);
        }
        dt.set_transform(&ctm);
        // optional history that must not matter: a layer pushed and popped (visible or not), a clip pushed and popped,
        // after the transform was set and before the source is drawn (the source stays fixed in the same user space)
        match sc["pre"].as_str() {
            Some("layer") => {
                dt.push_layer(1.0);
                dt.pop_layer();
            }
            Some("layer0") => {
                dt.push_layer(0.0);
                dt.pop_layer();
            }
            Some("clip") => {
                dt.push_clip_rect(IntRect::new(IntPoint::new(0, 0), IntPoint::new(w, h)));
                dt.pop_clip();
            }
            _ => {}
        }
        let o = DrawOptions { blend_mode: if clip.is_some() { BlendMode::SrcOver } else { BlendMode::Src }, alpha, antialias: AntialiasMode::Gray };
        match via {
            "fill" => {
                let inv = match ctm.inverse() {
                    Some(i) => i,
                    None => return,
                };
                let m = 4.0;
                let c = [
                    inv.transform_point(Point::new(-m, -m)),
                    inv.transform_point(Point::new(w as f32 + m, -m)),
                    inv.transform_point(Point::new(w as f32 + m, h as f32 + m)),
                    inv.transform_point(Point::new(-m, h as f32 + m)),
                ];
                let mut pb = PathBuilder::new();
                pb.move_to(c[0].x, c[0].y);
                pb.line_to(c[1].x, c[1].y);
                pb.line_to(c[2].x, c[2].y);
                pb.line_to(c[3].x, c[3].y);
                pb.close();
                let p = pb.finish();
                with_source(&sc["src"], den, &mut |s| dt.fill(&p, s, &o));
            }
            "draw_image_at" | "draw_image_with_size_at" => {
                let img = &sc["src"]["img"];
                let data = unpix(&img["data"]);
                let image = Image { width: int(&img["w"]), height: int(&img["h"]), data: &data };
                let d = &sc["dest"];
                if via == "draw_image_at" {
                    dt.draw_image_at(numd(&d[0], den), numd(&d[1], den), &image, &o);
                } else {
                    dt.draw_image_with_size_at(numd(&d[2], den), numd(&d[3], den), numd(&d[0], den), numd(&d[1], den), &image, &o);
                }
            }
            _ => panic!("bad via"),
        }
    }));
    let mut out = sc.as_object().unwrap().clone();
    // two-circle and sweep gradients: the gradient parameter t of every pixel centre is a
    // transcendental function of the geometry; it is supplied to the specification in 1/65536
    // (abstraction function, computed here in f64 from the property's own definition)
    let kind = sc["src"]["kind"].as_str().unwrap_or("");
    if kind == "sweep" || kind == "two_circle" {
        if let Some(tm) = tmap(sc, w, h, den as f64, kind) {
            out.insert("tmap".into(), tm);
        }
    }
    if let Some(cc) = clipcov {
        out.insert("clipcov".into(), json!(cc));
    }
    out.insert("outcome".into(), json!(if r.is_ok() { "ok" } else { "panic" }));
    out.insert("pix".into(), pix(dt.get_data()));
    out.insert("ctm_after_same".into(), json!(*dt.get_transform() == ctm));
    Value::Object(out)
}

fn tmap(sc: &Value, w: i32, h: i32, den: f64, kind: &str) -> Option<Value> {
    let c = &sc["ctm"];
    let md = num(&c["mden"]) as f64;
    let m: Vec<f64> = (0..6).map(|i| num(&c["m"][i]) as f64 / md).collect();
    let det = m[0] * m[3] - m[1] * m[2];
    if det == 0.0 {
        return None;
    }
    let src = &sc["src"];
    let g = |v: &Value| num(v) as f64 / den;
    let mut out = Vec::new();
    for py in 0..h {
        for px in 0..w {
            // user-space position of the pixel centre: inverse of (x, y) -> (x m0 + y m2 + m4, x m1 + y m3 + m5)
            let dx = px as f64 + 0.5 - m[4];
            let dy = py as f64 + 0.5 - m[5];
            let ux = (dx * m[3] - dy * m[2]) / det;
            let uy = (dy * m[0] - dx * m[1]) / det;
            let t = if kind == "sweep" {
                let cx = g(&src["center"][0]);
                let cy = g(&src["center"][1]);
                if (uy - cy).abs() < 1e-9 && (ux - cx).abs() < 1e-9 {
                    // the angle is undefined at the centre itself
                    out.push(json!([0, -1]));
                    continue;
                }
                let mut a = (uy - cy).atan2(ux - cx).to_degrees();
                if a < 0.0 {
                    a += 360.0;
                }
                let s = num(&src["start_angle"]) as f64;
                let e = num(&src["end_angle"]) as f64;
                (a - s) / (e - s)
            } else {
                let (c1x, c1y, r1) = (g(&src["c1"][0]), g(&src["c1"][1]), g(&src["r1"]));
                let (c2x, c2y, r2) = (g(&src["c2"][0]), g(&src["c2"][1]), g(&src["r2"]));
                let (cdx, cdy, dr) = (c2x - c1x, c2y - c1y, r2 - r1);
                let (pdx, pdy) = (ux - c1x, uy - c1y);
                let a = cdx * cdx + cdy * cdy - dr * dr;
                let b = pdx * cdx + pdy * cdy + r1 * dr;
                let cc = pdx * pdx + pdy * pdy - r1 * r1;
                if a == 0.0 {
                    cc / (2.0 * b)
                } else {
                    let disc = b * b - a * cc;
                    if disc < 0.0 {
                        f64::NAN
                    } else {
                        let t1 = (b + disc.sqrt()) / a;
                        let t2 = (b - disc.sqrt()) / a;
                        t1.max(t2)
                    }
                }
            };
            if !t.is_finite() || t.abs() > 20000.0 {
                out.push(json!([0, -1]));
            } else {
                let v = t * 65536.0;
                out.push(json!([v.floor() as i64 - 1, v.ceil() as i64 + 1]));
            }
        }
    }
    Some(Value::Array(out))
}

pub fn drive(_fam: &str, _seed: u64, _n: usize) -> Vec<Value> {
    Vec::new()
}
