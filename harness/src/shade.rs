//! C12 / C13: the colour a source produces at every pixel.  The scenario's source is rendered
//! over the whole surface with blend mode Src at full coverage, so the pixel IS the source
//! colour.  `via` selects how the source reaches the pixels: "fill" (default), "draw_image_at",
//! "draw_image_with_size_at".
use crate::canvas::{parse_transform, with_source};
use crate::util::*;
use raqote::*;
use serde_json::{json, Value};

pub fn run(sc: &Value) -> Value {
    let w = int(&sc["w"]);
    let h = int(&sc["h"]);
    let den = den_of(sc, "den", 1.0);
    let ctm = if sc.get("ctm").is_some() { parse_transform(&sc["ctm"]) } else { Transform::identity() };
    let alpha = if sc.get("alpha").is_some() { num(&sc["alpha"]) } else { 1.0 };
    let via = sc["via"].as_str().unwrap_or("fill");
    let mut dt = DrawTarget::new(w, h);
    let r = std::panic::catch_unwind(std::panic::AssertUnwindSafe(|| {
        dt.set_transform(&ctm);
        let o = DrawOptions { blend_mode: BlendMode::Src, alpha, antialias: AntialiasMode::Gray };
        match via {
            "fill" => {
                let inv = match ctm.inverse() {
                    Some(i) => i,
                    None => return,
                };
                let m = 4.0;
                let c = [
                    inv.transform_point(Point::new(-m, -m)),
                    inv.transform_point(Point::new(w as f32 + m, -m)),
                    inv.transform_point(Point::new(w as f32 + m, h as f32 + m)),
                    inv.transform_point(Point::new(-m, h as f32 + m)),
                ];
                let mut pb = PathBuilder::new();
                pb.move_to(c[0].x, c[0].y);
                pb.line_to(c[1].x, c[1].y);
                pb.line_to(c[2].x, c[2].y);
                pb.line_to(c[3].x, c[3].y);
                pb.close();
                let p = pb.finish();
                with_source(&sc["src"], den, &mut |s| dt.fill(&p, s, &o));
            }
            "draw_image_at" | "draw_image_with_size_at" => {
                let img = &sc["src"]["img"];
                let data = unpix(&img["data"]);
                let image = Image { width: int(&img["w"]), height: int(&img["h"]), data: &data };
                let d = &sc["dest"];
                if via == "draw_image_at" {
                    dt.draw_image_at(numd(&d[0], den), numd(&d[1], den), &image, &o);
                } else {
                    dt.draw_image_with_size_at(numd(&d[2], den), numd(&d[3], den), numd(&d[0], den), numd(&d[1], den), &image, &o);
                }
            }
            _ => panic!("bad via"),
        }
    }));
    let mut out = sc.as_object().unwrap().clone();
    out.insert("outcome".into(), json!(if r.is_ok() { "ok" } else { "panic" }));
    out.insert("pix".into(), pix(dt.get_data()));
    out.insert("ctm_after_same".into(), json!(*dt.get_transform() == ctm));
    Value::Object(out)
}

pub fn drive(_fam: &str, _seed: u64, _n: usize) -> Vec<Value> {
    Vec::new()
}
