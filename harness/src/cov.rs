//! C01: polygon fill coverage on quarter-pixel lattice polygons.
use crate::util::*;
use raqote::*;
use serde_json::{json, Value};

pub fn build_path(loops: &Value, closed: &Value, rule: &str, den: f32) -> Path {
    build_path_cont(loops, closed, &Value::Null, rule, den)
}

/// `nomove[i]`: loop i continues the previous (closed) subpath's cursor - its first vertex is that subpath's
/// starting point, where Close left the current point, and is not emitted; the others are LineTos
pub fn build_path_cont(loops: &Value, closed: &Value, nomove: &Value, rule: &str, den: f32) -> Path {
    let mut pb = PathBuilder::new();
    for (li, l) in loops.as_array().unwrap().iter().enumerate() {
        let pts = l.as_array().unwrap();
        for (i, p) in pts.iter().enumerate() {
            let x = num(&p[0]) / den;
            let y = num(&p[1]) / den;
            if i == 0 && nomove.get(li).and_then(|b| b.as_bool()).unwrap_or(false) {
                continue;
            }
            if i == 0 {
                pb.move_to(x, y);
            } else {
                pb.line_to(x, y);
            }
        }
        if closed.get(li).and_then(|b| b.as_bool()).unwrap_or(false) {
            pb.close();
        }
    }
    let mut p = pb.finish();
    p.winding = if rule == "EvenOdd" { Winding::EvenOdd } else { Winding::NonZero };
    p
}

pub fn run(sc: &Value) -> Value {
    let w = int(&sc["w"]);
    let h = int(&sc["h"]);
    let rule = sc["rule"].as_str().unwrap_or("NonZero");
    let aa = sc["aa"].as_bool().unwrap_or(true);
    let route = sc["route"].as_str().unwrap_or("fill");
    let path = build_path_cont(&sc["loops"], &sc["closed"], &sc["nomove"], rule, 4.0);
    let mut dt = DrawTarget::new(w, h);
    let white = Source::Solid(SolidSource { r: 255, g: 255, b: 255, a: 255 });
    let opts = DrawOptions {
        blend_mode: BlendMode::SrcOver,
        alpha: 1.0,
        antialias: if aa { AntialiasMode::Gray } else { AntialiasMode::None },
    };
    let res = std::panic::catch_unwind(std::panic::AssertUnwindSafe(|| match route {
        "clip" => {
            dt.push_clip(&path);
            dt.fill_rect(0., 0., w as f32, h as f32, &white, &DrawOptions::new());
            dt.pop_clip();
        }
        _ => dt.fill(&path, &white, &opts),
    }));
    json!({
        "id": sc["id"], "fam": "cov", "w": w, "h": h, "loops": sc["loops"], "rule": rule, "aa": if route == "clip" { true } else { aa },
        "route": route,
        "outcome": if res.is_ok() { "ok" } else { "panic" },
        "idle": dt.verif_rasterizer_idle(),
        "pix": pix(dt.get_data()),
    })
}

pub fn drive(seed: u64, n: usize) -> Vec<Value> {
    let mut rng = Rng::new(seed ^ 0xC01);
    let mut out = Vec::new();
    for i in 0..n {
        let tall = rng.chance(1, 10);
        // a few large surfaces (many sample rows and buckets)
        let large = !tall && rng.chance(1, 40);
        let w = if large { rng.range(20, 40) } else { rng.range(1, if tall { 4 } else { 6 }) };
        let h = if large { rng.range(17, 33) } else { rng.range(1, if tall { 4 } else { 6 }) };
        let nloops = rng.range(1, 3);
        let mut loops: Vec<Value> = Vec::new();
        let mut closed: Vec<bool> = Vec::new();
        let mut nomove = Vec::new();
        for li in 0..nloops as usize {
            let nv = rng.range(3, if tall { 4 } else { 7 });
            let mut pts = Vec::new();
            for _ in 0..nv {
                let (x, y) = if tall {
                    (rng.range(-6000, 6000), rng.range(-6000, 6000))
                } else {
                    (rng.range(-12, 4 * w + 12), rng.range(-12, 4 * h + 12))
                };
                pts.push(json!([x, y]));
            }
            // one loop in three that follows a closed one continues after the Close without a MoveTo: it starts at
            // the closed subpath's starting point
            let cont = li > 0 && closed[li - 1] && rng.chance(1, 3);
            if cont {
                pts[0] = loops[li - 1][0].clone();
            }
            nomove.push(cont);
            loops.push(Value::Array(pts));
            closed.push(rng.chance(1, 2));
        }
        out.push(json!({
            "id": format!("drv-cov-{}-{}", seed, i), "fam": "cov", "w": w, "h": h,
            "loops": loops, "closed": closed, "nomove": nomove,
            "rule": if rng.chance(1, 2) { "EvenOdd" } else { "NonZero" },
            "aa": !rng.chance(1, 4),
            "route": if rng.chance(1, 8) { "clip" } else { "fill" },
        }));
    }
    out
}
