//! JSON and pixel helpers shared by all scenario families.
use raqote::*;
use serde_json::{json, Value};

pub fn px(p: u32) -> Value {
    json!([(p >> 24) & 0xff, (p >> 16) & 0xff, (p >> 8) & 0xff, p & 0xff])
}

pub fn pix(buf: &[u32]) -> Value {
    Value::Array(buf.iter().map(|p| px(*p)).collect())
}

pub fn unpx(v: &Value) -> u32 {
    let a = v[0].as_u64().unwrap() as u32;
    let r = v[1].as_u64().unwrap() as u32;
    let g = v[2].as_u64().unwrap() as u32;
    let b = v[3].as_u64().unwrap() as u32;
    (a << 24) | (r << 16) | (g << 8) | b
}

pub fn unpix(v: &Value) -> Vec<u32> {
    v.as_array().unwrap().iter().map(unpx).collect()
}

/// Symbolic tokens for non-lattice values (C07) or plain numbers.
pub fn num(v: &Value) -> f32 {
    match v {
        Value::Number(n) => n.as_f64().unwrap() as f32,
        Value::String(s) => match s.as_str() {
            "NaN" => f32::NAN,
            "Inf" => f32::INFINITY,
            "-Inf" => f32::NEG_INFINITY,
            "Max" => f32::MAX,
            "-Max" => f32::MIN,
            "MinPos" => f32::MIN_POSITIVE,
            "-MinPos" => -f32::MIN_POSITIVE,
            "-0" => -0.0,
            "Eps" => f32::EPSILON,
            other => other.parse::<f32>().unwrap_or_else(|_| panic!("bad number token {}", other)),
        },
        // [n, d] rational
        Value::Array(a) if a.len() == 2 => num(&a[0]) / num(&a[1]),
        _ => panic!("bad number {:?}", v),
    }
}

/// value / den
pub fn numd(v: &Value, den: f32) -> f32 {
    match v {
        Value::Number(_) => num(v) / den,
        _ => num(v),
    }
}

pub fn int(v: &Value) -> i32 {
    v.as_i64().unwrap_or_else(|| panic!("expected int, got {:?}", v)) as i32
}

pub fn den_of(v: &Value, key: &str, default: f32) -> f32 {
    match v.get(key) {
        Some(d) if !d.is_null() => num(d),
        _ => default,
    }
}

pub fn blend_mode(s: &str) -> BlendMode {
    match s {
        "Dst" => BlendMode::Dst,
        "Src" => BlendMode::Src,
        "Clear" => BlendMode::Clear,
        "SrcOver" => BlendMode::SrcOver,
        "DstOver" => BlendMode::DstOver,
        "SrcIn" => BlendMode::SrcIn,
        "DstIn" => BlendMode::DstIn,
        "SrcOut" => BlendMode::SrcOut,
        "DstOut" => BlendMode::DstOut,
        "SrcAtop" => BlendMode::SrcAtop,
        "DstAtop" => BlendMode::DstAtop,
        "Xor" => BlendMode::Xor,
        "Add" => BlendMode::Add,
        "Screen" => BlendMode::Screen,
        "Overlay" => BlendMode::Overlay,
        "Darken" => BlendMode::Darken,
        "Lighten" => BlendMode::Lighten,
        "ColorDodge" => BlendMode::ColorDodge,
        "ColorBurn" => BlendMode::ColorBurn,
        "HardLight" => BlendMode::HardLight,
        "SoftLight" => BlendMode::SoftLight,
        "Difference" => BlendMode::Difference,
        "Exclusion" => BlendMode::Exclusion,
        "Multiply" => BlendMode::Multiply,
        "Hue" => BlendMode::Hue,
        "Saturation" => BlendMode::Saturation,
        "Color" => BlendMode::Color,
        "Luminosity" => BlendMode::Luminosity,
        _ => panic!("unknown blend mode {}", s),
    }
}

pub const MODES: [&str; 28] = [
    "Dst", "Src", "Clear", "SrcOver", "DstOver", "SrcIn", "DstIn", "SrcOut", "DstOut", "SrcAtop",
    "DstAtop", "Xor", "Add", "Screen", "Overlay", "Darken", "Lighten", "ColorDodge", "ColorBurn",
    "HardLight", "SoftLight", "Difference", "Exclusion", "Multiply", "Hue", "Saturation", "Color",
    "Luminosity",
];

/// The harness's own dispatch from a mode name to sw-composite's blend function.  It shares
/// nothing with raqote's `build_blend_proc`.
pub fn sw_blend(mode: &str, s: u32, d: u32) -> u32 {
    use sw_composite::blend::*;
    match mode {
        "Dst" => Dst::blend(s, d),
        "Src" => Src::blend(s, d),
        "Clear" => Clear::blend(s, d),
        "SrcOver" => SrcOver::blend(s, d),
        "DstOver" => DstOver::blend(s, d),
        "SrcIn" => SrcIn::blend(s, d),
        "DstIn" => DstIn::blend(s, d),
        "SrcOut" => SrcOut::blend(s, d),
        "DstOut" => DstOut::blend(s, d),
        "SrcAtop" => SrcAtop::blend(s, d),
        "DstAtop" => DstAtop::blend(s, d),
        "Xor" => Xor::blend(s, d),
        "Add" => Add::blend(s, d),
        "Screen" => Screen::blend(s, d),
        "Overlay" => Overlay::blend(s, d),
        "Darken" => Darken::blend(s, d),
        "Lighten" => Lighten::blend(s, d),
        "ColorDodge" => ColorDodge::blend(s, d),
        "ColorBurn" => ColorBurn::blend(s, d),
        "HardLight" => HardLight::blend(s, d),
        "SoftLight" => SoftLight::blend(s, d),
        "Difference" => Difference::blend(s, d),
        "Exclusion" => Exclusion::blend(s, d),
        "Multiply" => Multiply::blend(s, d),
        "Hue" => Hue::blend(s, d),
        "Saturation" => Saturation::blend(s, d),
        "Color" => Color::blend(s, d),
        "Luminosity" => Luminosity::blend(s, d),
        _ => panic!("unknown blend mode {}", mode),
    }
}

/// Small deterministic PRNG (splitmix64) so that the harness needs no external crate and
/// every driver scenario is reproducible from (seed, index).
pub struct Rng(pub u64);

impl Rng {
    pub fn new(seed: u64) -> Rng {
        // the state advances by a constant: the seed is hashed first, so that neighbouring seeds do not give the
        // same stream shifted by a few draws
        let mut z = seed.wrapping_add(0x632BE59BD9B4E019);
        z = (z ^ (z >> 30)).wrapping_mul(0xBF58476D1CE4E5B9);
        z = (z ^ (z >> 27)).wrapping_mul(0x94D049BB133111EB);
        Rng((z ^ (z >> 31)).wrapping_mul(0x9E3779B97F4A7C15).wrapping_add(0x1234567))
    }
    pub fn next(&mut self) -> u64 {
        self.0 = self.0.wrapping_add(0x9E3779B97F4A7C15);
        let mut z = self.0;
        z = (z ^ (z >> 30)).wrapping_mul(0xBF58476D1CE4E5B9);
        z = (z ^ (z >> 27)).wrapping_mul(0x94D049BB133111EB);
        z ^ (z >> 31)
    }
    /// uniform in lo..=hi
    pub fn range(&mut self, lo: i64, hi: i64) -> i64 {
        lo + (self.next() % ((hi - lo + 1) as u64)) as i64
    }
    pub fn chance(&mut self, num: u64, den: u64) -> bool {
        self.next() % den < num
    }
    pub fn pick<'a, T>(&mut self, xs: &'a [T]) -> &'a T {
        &xs[(self.next() % xs.len() as u64) as usize]
    }
    pub fn f(&mut self) -> f64 {
        (self.next() >> 11) as f64 / (1u64 << 53) as f64
    }
    pub fn frange(&mut self, lo: f64, hi: f64) -> f64 {
        lo + (hi - lo) * self.f()
    }
    /// a premultiplied pixel
    pub fn premul(&mut self) -> u32 {
        let a = *self.pick(&[0u32, 1, 2, 64, 127, 128, 129, 200, 254, 255, 255, 255]);
        let c = |r: &mut Rng| if a == 0 { 0 } else { (r.next() % (a as u64 + 1)) as u32 };
        let (r, g, b) = (c(self), c(self), c(self));
        (a << 24) | (r << 16) | (g << 8) | b
    }
}
