//! The DrawTarget API machine: executes call histories on the real library and records one
//! event per public call and per target (the main target plus one "shadow" target per open
//! layer, which makes the hidden layer buffers observable; see DESIGN.md C06).
use crate::util::*;
use raqote::*;
use serde_json::{json, Value};

pub fn parse_transform(v: &Value) -> Transform {
    let den = den_of(v, "mden", 1.0);
    let m = &v["m"];
    Transform::new(
        numd(&m[0], den), numd(&m[1], den), numd(&m[2], den),
        numd(&m[3], den), numd(&m[4], den), numd(&m[5], den),
    )
}

pub fn parse_path(v: &Value, den_default: f32) -> Path {
    let den = den_of(v, "den", den_default);
    let mut pb = PathBuilder::new();
    for op in v["ops"].as_array().unwrap() {
        let k = op[0].as_str().unwrap();
        let c = |i: usize| numd(&op[i], den);
        match k {
            "M" => pb.move_to(c(1), c(2)),
            "L" => pb.line_to(c(1), c(2)),
            "Q" => pb.quad_to(c(1), c(2), c(3), c(4)),
            "C" => pb.cubic_to(c(1), c(2), c(3), c(4), c(5), c(6)),
            "Z" => pb.close(),
            "R" => pb.rect(c(1), c(2), c(3), c(4)),
            "A" => pb.arc(c(1), c(2), c(3), num(&op[4]), num(&op[5])),
            _ => panic!("bad path op {}", k),
        }
    }
    let mut p = pb.finish();
    p.winding = if v["winding"].as_str() == Some("EvenOdd") { Winding::EvenOdd } else { Winding::NonZero };
    p
}

pub fn parse_opts(v: &Value) -> DrawOptions {
    if v.is_null() {
        return DrawOptions::new();
    }
    DrawOptions {
        blend_mode: blend_mode(v["blend"].as_str().unwrap_or("SrcOver")),
        alpha: if v.get("alpha").is_some() { num(&v["alpha"]) } else { 1.0 },
        antialias: if v["aa"].as_bool().unwrap_or(true) { AntialiasMode::Gray } else { AntialiasMode::None },
    }
}

pub fn parse_style(v: &Value, den_default: f32) -> StrokeStyle {
    let den = den_of(v, "den", den_default);
    StrokeStyle {
        width: numd(&v["width"], den),
        cap: match v["cap"].as_str().unwrap_or("Butt") {
            "Round" => LineCap::Round,
            "Square" => LineCap::Square,
            _ => LineCap::Butt,
        },
        join: match v["join"].as_str().unwrap_or("Miter") {
            "Round" => LineJoin::Round,
            "Bevel" => LineJoin::Bevel,
            _ => LineJoin::Miter,
        },
        miter_limit: if v.get("miter").is_some() { num(&v["miter"]) } else { 10.0 },
        dash_array: v.get("dash").and_then(|d| d.as_array()).map(|a| a.iter().map(|x| numd(x, den)).collect()).unwrap_or_default(),
        dash_offset: v.get("dash_offset").map(|x| numd(x, den)).unwrap_or(0.0),
    }
}

pub fn parse_stops(v: &Value) -> Vec<GradientStop> {
    v.as_array()
        .unwrap()
        .iter()
        .map(|s| {
            let c = &s[1];
            GradientStop {
                position: num(&s[0]),
                color: Color::new(int(&c[0]) as u8, int(&c[1]) as u8, int(&c[2]) as u8, int(&c[3]) as u8),
            }
        })
        .collect()
}

pub fn parse_spread(v: &Value) -> Spread {
    match v.as_str().unwrap_or("Pad") {
        "Repeat" => Spread::Repeat,
        "Reflect" => Spread::Reflect,
        _ => Spread::Pad,
    }
}

/// Build the Source described by `v` and hand it to `f`.
pub fn with_source<R>(v: &Value, den_default: f32, f: &mut dyn FnMut(&Source) -> R) -> R {
    let den = den_of(v, "den", den_default);
    match v["kind"].as_str().unwrap() {
        "solid" => {
            let c = &v["c"];
            let s = Source::Solid(SolidSource { a: int(&c[0]) as u8, r: int(&c[1]) as u8, g: int(&c[2]) as u8, b: int(&c[3]) as u8 });
            f(&s)
        }
        "image" => {
            let img = &v["img"];
            let data = unpix(&img["data"]);
            let image = Image { width: int(&img["w"]), height: int(&img["h"]), data: &data };
            let ext = if v["extend"].as_str() == Some("Repeat") { ExtendMode::Repeat } else { ExtendMode::Pad };
            let fil = if v["filter"].as_str() == Some("Bilinear") { FilterMode::Bilinear } else { FilterMode::Nearest };
            let t = if v.get("m").is_some() { parse_transform(v) } else { Transform::identity() };
            let s = Source::Image(image, ext, fil, t);
            f(&s)
        }
        "linear" => {
            let g = Gradient { stops: parse_stops(&v["stops"]) };
            let s = Source::new_linear_gradient(
                g,
                Point::new(numd(&v["start"][0], den), numd(&v["start"][1], den)),
                Point::new(numd(&v["end"][0], den), numd(&v["end"][1], den)),
                parse_spread(&v["spread"]),
            );
            f(&s)
        }
        "radial" => {
            let g = Gradient { stops: parse_stops(&v["stops"]) };
            let s = Source::new_radial_gradient(
                g,
                Point::new(numd(&v["center"][0], den), numd(&v["center"][1], den)),
                numd(&v["radius"], den),
                parse_spread(&v["spread"]),
            );
            f(&s)
        }
        "two_circle" => {
            let g = Gradient { stops: parse_stops(&v["stops"]) };
            let s = Source::new_two_circle_radial_gradient(
                g,
                Point::new(numd(&v["c1"][0], den), numd(&v["c1"][1], den)),
                numd(&v["r1"], den),
                Point::new(numd(&v["c2"][0], den), numd(&v["c2"][1], den)),
                numd(&v["r2"], den),
                parse_spread(&v["spread"]),
            );
            f(&s)
        }
        "sweep" => {
            let g = Gradient { stops: parse_stops(&v["stops"]) };
            let s = Source::new_sweep_gradient(
                g,
                Point::new(numd(&v["center"][0], den), numd(&v["center"][1], den)),
                num(&v["start_angle"]),
                num(&v["end_angle"]),
                parse_spread(&v["spread"]),
            );
            f(&s)
        }
        // sources as recorded by the API tracer (src/verif_trace.rs): the enum's own fields
        "linear_raw" => f(&Source::LinearGradient(Gradient { stops: parse_stops(&v["stops"]) }, parse_spread(&v["spread"]), parse_transform(v))),
        "radial_raw" => f(&Source::RadialGradient(Gradient { stops: parse_stops(&v["stops"]) }, parse_spread(&v["spread"]), parse_transform(v))),
        "two_circle_raw" => f(&Source::TwoCircleRadialGradient(
            Gradient { stops: parse_stops(&v["stops"]) },
            parse_spread(&v["spread"]),
            Point::new(num(&v["c1"][0]), num(&v["c1"][1])),
            num(&v["r1"]),
            Point::new(num(&v["c2"][0]), num(&v["c2"][1])),
            num(&v["r2"]),
            parse_transform(v),
        )),
        "sweep_raw" => f(&Source::SweepGradient(
            Gradient { stops: parse_stops(&v["stops"]) },
            parse_spread(&v["spread"]),
            num(&v["start_angle"]),
            num(&v["end_angle"]),
            parse_transform(v),
        )),
        k => panic!("bad source kind {}", k),
    }
}

pub fn irect(v: &Value) -> IntRect {
    IntRect::new(IntPoint::new(int(&v[0]), int(&v[1])), IntPoint::new(int(&v[2]), int(&v[3])))
}

/// Execute one API call on `dt`.
pub fn apply_call(dt: &mut DrawTarget, c: &Value, den: f32) {
    let op = c["op"].as_str().unwrap();
    match op {
        "set_transform" => dt.set_transform(&parse_transform(c)),
        "push_clip_rect" => dt.push_clip_rect(irect(&c["r"])),
        "push_clip" => dt.push_clip(&parse_path(&c["path"], den)),
        "pop_clip" => dt.pop_clip(),
        "push_layer" => {
            let o = num(&c["opacity"]);
            match c.get("blend").and_then(|b| b.as_str()) {
                Some(b) => dt.push_layer_with_blend(o, blend_mode(b)),
                None => dt.push_layer(o),
            }
        }
        "pop_layer" => dt.pop_layer(),
        "fill" => {
            let mut p = parse_path(&c["path"], den);
            if let Some(t) = c.get("pretransform") {
                p = p.transform(&parse_transform(t));
            }
            if let Some(tol) = c.get("flatten") {
                let w = p.winding;
                p = p.flatten(num(tol));
                p.winding = w;
            }
            let o = parse_opts(&c["opts"]);
            with_source(&c["src"], den, &mut |s| dt.fill(&p, s, &o));
        }
        "fill_rect" => {
            let r = &c["r"];
            let o = parse_opts(&c["opts"]);
            let d = den_of(c, "den", den);
            with_source(&c["src"], den, &mut |s| dt.fill_rect(numd(&r[0], d), numd(&r[1], d), numd(&r[2], d), numd(&r[3], d), s, &o));
        }
        "stroke" => {
            let p = parse_path(&c["path"], den);
            let o = parse_opts(&c["opts"]);
            let st = parse_style(&c["style"], den);
            with_source(&c["src"], den, &mut |s| dt.stroke(&p, s, &st, &o));
        }
        "clear" => {
            let k = &c["color"];
            dt.clear(SolidSource { a: int(&k[0]) as u8, r: int(&k[1]) as u8, g: int(&k[2]) as u8, b: int(&k[3]) as u8 });
        }
        "mask" => {
            let m = Mask {
                width: int(&c["mw"]),
                height: int(&c["mh"]),
                data: c["data"].as_array().unwrap().iter().map(|x| int(x) as u8).collect(),
            };
            with_source(&c["src"], den, &mut |s| dt.mask(s, int(&c["x"]), int(&c["y"]), &m));
        }
        "draw_image_at" => {
            let img = &c["img"];
            let data = unpix(&img["data"]);
            let image = Image { width: int(&img["w"]), height: int(&img["h"]), data: &data };
            let d = den_of(c, "den", den);
            dt.draw_image_at(numd(&c["x"], d), numd(&c["y"], d), &image, &parse_opts(&c["opts"]));
        }
        "draw_image_with_size_at" => {
            let img = &c["img"];
            let data = unpix(&img["data"]);
            let image = Image { width: int(&img["w"]), height: int(&img["h"]), data: &data };
            let d = den_of(c, "den", den);
            dt.draw_image_with_size_at(numd(&c["w"], d), numd(&c["h"], d), numd(&c["x"], d), numd(&c["y"], d), &image, &parse_opts(&c["opts"]));
        }
        "copy_surface" | "blend_surface" | "blend_surface_with_alpha" => {
            let img = &c["img"];
            let src = DrawTarget::from_vec(int(&img["w"]), int(&img["h"]), unpix(&img["data"]));
            let r = irect(&c["rect"]);
            let d = IntPoint::new(int(&c["dst"][0]), int(&c["dst"][1]));
            match op {
                "copy_surface" => dt.copy_surface(&src, r, d),
                "blend_surface" => dt.blend_surface(&src, r, d, blend_mode(c["blend"].as_str().unwrap())),
                _ => dt.blend_surface_with_alpha(&src, r, d, num(&c["alpha"])),
            }
        }
        _ => panic!("unknown op {}", op),
    }
}

pub fn is_draw(op: &str) -> bool {
    matches!(op, "fill" | "fill_rect" | "stroke" | "clear" | "mask" | "draw_image_at" | "draw_image_with_size_at" | "pop_layer"
        | "copy_surface" | "blend_surface" | "blend_surface_with_alpha")
}

fn fbits(x: f32) -> Value {
    let b = x.to_bits();
    json!([b >> 16, b & 0xffff])
}

pub fn ctm_bits(t: &Transform) -> Value {
    json!([fbits(t.m11), fbits(t.m12), fbits(t.m21), fbits(t.m22), fbits(t.m31), fbits(t.m32)])
}

/// The colour the call's source produces at every pixel (full coverage, `Src`), rendered on a
/// scratch target under the same transform.  Used as `s` in the compositing formula for image
/// and gradient sources (their positioning is C12/C13's subject).
pub fn shade_probe(w: i32, h: i32, ctm: &Transform, srcv: &Value, alpha: f32, den: f32) -> Option<Value> {
    let inv = ctm.inverse()?;
    let mut sc = DrawTarget::new(w, h);
    sc.set_transform(ctm);
    let mut pb = PathBuilder::new();
    let m = 4.0;
    let c = [
        inv.transform_point(Point::new(-m, -m)),
        inv.transform_point(Point::new(w as f32 + m, -m)),
        inv.transform_point(Point::new(w as f32 + m, h as f32 + m)),
        inv.transform_point(Point::new(-m, h as f32 + m)),
    ];
    pb.move_to(c[0].x, c[0].y);
    pb.line_to(c[1].x, c[1].y);
    pb.line_to(c[2].x, c[2].y);
    pb.line_to(c[3].x, c[3].y);
    pb.close();
    let p = pb.finish();
    let o = DrawOptions { blend_mode: BlendMode::Src, alpha, antialias: AntialiasMode::Gray };
    let r = std::panic::catch_unwind(std::panic::AssertUnwindSafe(|| {
        with_source(srcv, den, &mut |s| sc.fill(&p, s, &o));
    }));
    if r.is_err() {
        return None;
    }
    Some(pix(sc.get_data()))
}

const TOKENS: [&str; 10] = ["NaN", "Inf", "-Inf", "Max", "-Max", "MinPos", "-MinPos", "-0", "Eps", "f"];

fn is_lattice(v: &Value) -> bool {
    match v {
        Value::Number(n) => n.is_i64() || n.is_u64(),
        Value::String(s) => !TOKENS.contains(&s.as_str()) && s.parse::<f32>().is_err(),
        Value::Array(a) => a.iter().all(is_lattice),
        Value::Object(o) => o.iter().all(|(_, x)| is_lattice(x)),
        _ => true,
    }
}

/// TLC's JSON reader silently truncates non-integer numbers: replace them by the token "f".
fn sanitize(v: &Value) -> Value {
    match v {
        Value::Number(n) if !(n.is_i64() || n.is_u64()) => json!("f"),
        Value::Array(a) => Value::Array(a.iter().map(sanitize).collect()),
        Value::Object(o) => Value::Object(o.iter().map(|(k, x)| (k.clone(), sanitize(x))).collect()),
        Value::Null => json!("null"),
        _ => v.clone(),
    }
}

/// The call as echoed into the trace: `lat` says that every number in it is an integer (so the
/// specification may compute with them); set_transform also carries the f32 bits of its argument.
pub fn annot(c: &Value) -> Value {
    let mut o = sanitize(c);
    o["lat"] = json!(is_lattice(c));
    if c["op"].as_str() == Some("set_transform") {
        o["mb"] = ctm_bits(&parse_transform(c));
    }
    o
}

struct Tgt {
    dt: DrawTarget,
    id: usize,
    init: Vec<u32>,
    events: Vec<Value>,
    /// index of the first scenario call this target saw (0 for main)
    from: usize,
    /// set-up calls issued on creation (re-established transform and clips)
    setup: Vec<Value>,
    dead: bool,
    last: Vec<u32>,
}

#[derive(Clone)]
struct OpenClip {
    ctm: Transform,
    ctm_json: Value,
    call: Value,
    /// layer depth at which the clip was pushed
    depth: usize,
}

fn reestablish(dt: &mut DrawTarget, clips: &[OpenClip], cur: &Transform, den: f32, log: &mut Vec<Value>, cur_json: &Value) {
    for oc in clips {
        dt.set_transform(&oc.ctm);
        log.push(annot(&oc.ctm_json));
        apply_call(dt, &oc.call, den);
        log.push(annot(&oc.call));
    }
    dt.set_transform(cur);
    log.push(annot(cur_json));
}

pub fn run(sc: &Value) -> Value {
    let w = int(&sc["w"]);
    let h = int(&sc["h"]);
    let den = den_of(sc, "den", 1.0);
    let n = (w * h) as usize;
    let init: Vec<u32> = init_pixels(sc, n);
    let want_fresh = sc["fresh"].as_bool().unwrap_or(false);
    let want_shade = sc["shade"].as_bool().unwrap_or(true);
    let identity_json = json!({"op": "set_transform", "m": [1, 0, 0, 1, 0, 0], "mden": 1});

    let mut tg: Vec<Tgt> = vec![Tgt { dt: DrawTarget::from_vec(w, h, init.clone()), id: 0, init: init.clone(), events: Vec::new(), from: 0, setup: Vec::new(), dead: false, last: init.clone() }];
    let mut clips: Vec<OpenClip> = Vec::new();
    let mut cur = Transform::identity();
    let mut cur_json = identity_json.clone();
    let mut depth = 0usize; // layer depth of main
    let mut next_id = 1usize;
    // C10: a fresh target replaying the current outermost layer group
    let mut group_fresh: Option<DrawTarget> = None;
    let mut outcome = "ok".to_string();
    let mut finished: Vec<Tgt> = Vec::new();

    // scenarios converted from recorded executions (API tracer): the pixels the recorded run
    // had after each call; the replay must reproduce them
    let recorded = sc.get("recorded").and_then(|r| r.as_array());
    let mut rec_checked = 0usize;
    let mut rec_mismatch: Vec<usize> = Vec::new();

    let calls = sc["calls"].as_array().unwrap();
    'outer: for (ci, c) in calls.iter().enumerate() {
        let op = c["op"].as_str().unwrap();
        // pops without a matching push are outside every property's domain
        if (op == "pop_layer" && depth == 0) || (op == "pop_clip" && clips.is_empty()) {
            continue;
        }
        let mut extra = serde_json::Map::new();
        // observation common to all targets: the source colour per pixel
        if want_shade && is_draw(op) {
            if let Some(srcv) = c.get("src") {
                if srcv["kind"].as_str() != Some("solid") {
                    let alpha = if c["opts"].get("alpha").is_some() { num(&c["opts"]["alpha"]) } else { 1.0 };
                    if let Some(p) = shade_probe(w, h, &cur, srcv, alpha, den) {
                        extra.insert("shade".into(), p);
                    }
                    // image sources: also the pure source colour, so that the specification applies the
                    // global alpha itself (a shader that drops the alpha is then visible to C03)
                    if srcv["kind"].as_str() == Some("image") && alpha != 1.0 {
                        if let Some(p) = shade_probe(w, h, &cur, srcv, 1.0, den) {
                            extra.insert("shade1".into(), p);
                        }
                    }
                }
            }
        }
        // C10: fresh replay of a single drawing call at layer depth 0
        let mut fresh_pix: Option<Value> = None;
        if want_fresh && depth == 0 && is_draw(op) && op != "pop_layer" {
            let mut f = DrawTarget::from_vec(w, h, tg[0].dt.get_data().to_vec());
            let mut lg = Vec::new();
            let r = std::panic::catch_unwind(std::panic::AssertUnwindSafe(|| {
                reestablish(&mut f, &clips, &cur, den, &mut lg, &cur_json);
                apply_call(&mut f, c, den);
            }));
            if r.is_ok() {
                fresh_pix = Some(pix(f.get_data()));
            }
        }
        if want_fresh && depth == 0 && op == "push_layer" {
            let mut f = DrawTarget::from_vec(w, h, tg[0].dt.get_data().to_vec());
            let mut lg = Vec::new();
            let r = std::panic::catch_unwind(std::panic::AssertUnwindSafe(|| {
                reestablish(&mut f, &clips, &cur, den, &mut lg, &cur_json);
            }));
            group_fresh = if r.is_ok() { Some(f) } else { None };
        }
        if let Some(f) = group_fresh.as_mut() {
            let r = std::panic::catch_unwind(std::panic::AssertUnwindSafe(|| apply_call(f, c, den)));
            if r.is_err() {
                group_fresh = None;
            }
        }

        // a new layer gets a shadow target: transparent, same transform and clip
        let mut new_shadow: Option<Tgt> = None;
        if op == "push_layer" {
            let mut s = DrawTarget::new(w, h);
            let mut lg = Vec::new();
            let r = std::panic::catch_unwind(std::panic::AssertUnwindSafe(|| {
                reestablish(&mut s, &clips, &cur, den, &mut lg, &cur_json);
            }));
            if r.is_ok() {
                new_shadow = Some(Tgt { dt: s, id: next_id, init: vec![0; n], events: Vec::new(), from: ci + 1, setup: lg, dead: false, last: vec![0; n] });
                next_id += 1;
            }
        }
        let nt = tg.len();
        let top_is_shadow_of_this_pop = op == "pop_layer" && nt > 1;
        let layer_pix: Option<Value> = if top_is_shadow_of_this_pop { Some(pix(tg[nt - 1].dt.get_data())) } else { None };
        for ti in 0..nt {
            if op == "pop_layer" && ti == nt - 1 && nt > 1 {
                continue; // the shadow of the layer being popped does not contain that layer
            }
            if tg[ti].dead {
                continue;
            }
            let t = &mut tg[ti];
            let r = std::panic::catch_unwind(std::panic::AssertUnwindSafe(|| apply_call(&mut t.dt, c, den)));
            let mut ev = serde_json::Map::new();
            ev.insert("ci".into(), json!(ci + 1));
            ev.insert("call".into(), annot(c));
            match &r {
                Ok(_) => {
                    ev.insert("outcome".into(), json!("ok"));
                }
                Err(e) => {
                    ev.insert("outcome".into(), json!("panic"));
                    ev.insert("msg".into(), json!(crate::panic_msg(e)));
                    t.dead = true;
                    if ti == 0 {
                        outcome = "panic".into();
                    }
                }
            }
            // unchanged pixels are not repeated (the trace specification then keeps its own)
            let now = t.dt.get_data().to_vec();
            if ti == 0 {
                if let Some(rec) = recorded.and_then(|r| r.get(ci)) {
                    if rec.is_array() {
                        rec_checked += 1;
                        if unpix(rec) != now {
                            rec_mismatch.push(ci + 1);
                        }
                    }
                }
            }
            if now != t.last {
                ev.insert("after".into(), pix(&now));
                t.last = now;
            }
            ev.insert("mb".into(), ctm_bits(t.dt.get_transform()));
            let (cd, ld) = t.dt.verif_stack_depths();
            ev.insert("depths".into(), json!([cd, ld]));
            ev.insert("idle".into(), json!(t.dt.verif_rasterizer_idle()));
            for (k, v) in extra.iter() {
                ev.insert(k.clone(), v.clone());
            }
            if op == "pop_layer" {
                // the parent of the popped layer is the target just below its shadow
                if nt > 1 && ti == nt - 2 {
                    if let Some(lp) = &layer_pix {
                        ev.insert("layer_pix".into(), lp.clone());
                    }
                }
            }
            if ti == 0 {
                if let Some(fp) = &fresh_pix {
                    ev.insert("fresh".into(), fp.clone());
                }
                if op == "pop_layer" && depth == 1 {
                    if let Some(f) = group_fresh.take() {
                        ev.insert("fresh".into(), pix(f.get_data()));
                    }
                }
            }
            t.events.push(Value::Object(ev));
        }
        // bookkeeping of the scenario-level state
        match op {
            "set_transform" => {
                cur = parse_transform(c);
                cur_json = c.clone();
            }
            "push_clip_rect" | "push_clip" => clips.push(OpenClip { ctm: cur, ctm_json: cur_json.clone(), call: c.clone(), depth }),
            "pop_clip" => {
                clips.pop();
            }
            "push_layer" => {
                depth += 1;
                if let Some(s) = new_shadow {
                    tg.push(s);
                } else {
                    // could not even set the shadow up: stop recording shadows for this scenario
                    outcome = "shadow-setup-panic".into();
                    break 'outer;
                }
            }
            "pop_layer" => {
                depth -= 1;
                if tg.len() > 1 {
                    let s = tg.pop().unwrap();
                    finished.push(s);
                }
            }
            _ => {}
        }
        if tg[0].dead {
            break 'outer;
        }
    }
    let mut all: Vec<Tgt> = Vec::new();
    all.extend(tg.into_iter());
    all.extend(finished.into_iter());
    all.sort_by_key(|t| t.id);
    let targets: Vec<Value> = all
        .into_iter()
        .map(|t| json!({"tgt": t.id, "from": t.from, "setup": t.setup, "init": pix(&t.init), "events": t.events}))
        .collect();
    json!({"id": sc["id"], "fam": "canvas", "w": w, "h": h, "den": sc.get("den").cloned().unwrap_or(json!(1)),
           "outcome": outcome, "targets": targets, "rec_checked": rec_checked, "rec_mismatch": rec_mismatch})
}

fn init_pixels(sc: &Value, n: usize) -> Vec<u32> {
    match sc.get("init") {
        Some(v) if v.is_array() => unpix(v),
        Some(v) if v.as_str() == Some("distinct") => crate::surface::dst_pattern(n),
        _ => vec![0; n],
    }
}

/// Two-route scenarios: the call lists `a` and `b` are executed on two fresh targets with the
/// same initial pixels; the property at stake says the results are identical.
pub fn run_routes(sc: &Value) -> Value {
    let w = int(&sc["w"]);
    let h = int(&sc["h"]);
    let den = den_of(sc, "den", 1.0);
    let init = init_pixels(sc, (w * h) as usize);
    let mut out = serde_json::Map::new();
    out.insert("id".into(), sc["id"].clone());
    out.insert("fam".into(), json!("routes"));
    out.insert("w".into(), json!(w));
    out.insert("h".into(), json!(h));
    out.insert("init".into(), pix(&init));
    for route in ["a", "b"].iter() {
        let mut dt = DrawTarget::from_vec(w, h, init.clone());
        let calls = sc[*route].as_array().unwrap();
        let r = std::panic::catch_unwind(std::panic::AssertUnwindSafe(|| {
            for c in calls {
                apply_call(&mut dt, c, den);
            }
        }));
        out.insert(format!("o{}", route), json!(if r.is_ok() { "ok" } else { "panic" }));
        out.insert(format!("p{}", route), pix(dt.get_data()));
    }
    Value::Object(out)
}

pub fn drive(_fam: &str, _seed: u64, _n: usize) -> Vec<Value> {
    Vec::new()
}
