use serde_json::{json, Value};
pub fn run(sc: &Value) -> Value { json!({"id": sc["id"], "outcome": "unimplemented"}) }
pub fn drive(_fam: &str, _seed: u64, _n: usize) -> Vec<Value> { Vec::new() }
