//! Specification self-check: evaluates sw-composite's public per-pixel primitives on argument
//! tuples so that TLC can compare them with their transcription in Pixel.tla.  A mismatch is a
//! defect of the specification (tool error), never a verdict about raqote.
use crate::util::*;
use serde_json::{json, Value};
use sw_composite::*;

fn guarded(f: impl FnOnce() -> u32 + std::panic::UnwindSafe) -> Value {
    match std::panic::catch_unwind(f) {
        Ok(v) => json!({"ok": true, "v": px(v)}),
        Err(_) => json!({"ok": false, "v": [0, 0, 0, 0]}),
    }
}

pub fn run(sc: &Value) -> Value {
    let mode = sc["mode"].as_str().unwrap().to_string();
    let s = unpx(&sc["s"]);
    let d = unpx(&sc["d"]);
    let cov = sc["cov"].as_u64().unwrap() as u32;
    let clip = sc["clip"].as_u64().unwrap() as u32;
    let t = sc["t"].as_u64().unwrap() as u32;
    let m2 = mode.clone();
    json!({
        "id": sc["id"], "fam": "selfcheck", "mode": mode, "s": sc["s"], "d": sc["d"], "cov": cov, "clip": clip, "t": t,
        "blend": guarded(move || sw_blend(&m2, s, d)),
        "over": guarded(move || over(s, d)),
        "over_in": guarded(move || over_in(s, d, cov)),
        "over_in_in": guarded(move || over_in_in(s, d, cov, clip)),
        "lerp": guarded(move || lerp(s, d, t)),
        "alpha_mul": guarded(move || alpha_mul(s, t)),
        "alpha_lerp": guarded(move || alpha_lerp(s, d, cov, clip)),
        "muldiv255": muldiv255(cov, clip),
        "div255": div255(cov * clip),
        "premul_in": (s >> 24) >= ((s >> 16) & 255) && (s >> 24) >= ((s >> 8) & 255) && (s >> 24) >= (s & 255)
            && (d >> 24) >= ((d >> 16) & 255) && (d >> 24) >= ((d >> 8) & 255) && (d >> 24) >= (d & 255),
    })
}

pub fn drive(seed: u64, n: usize) -> Vec<Value> {
    let mut rng = Rng::new(seed ^ 0x5e1f);
    let mut out = Vec::new();
    let bytes = [0u32, 1, 2, 63, 64, 127, 128, 129, 200, 253, 254, 255];
    for i in 0..n {
        let mode = MODES[(i + rng.range(0, 27) as usize) % 28];
        let s = rng.premul();
        let d = rng.premul();
        let cov = if rng.chance(1, 2) { *rng.pick(&bytes) } else { rng.range(0, 255) as u32 };
        let clip = if rng.chance(1, 2) { *rng.pick(&bytes) } else { rng.range(0, 255) as u32 };
        let t = rng.range(0, 256) as u32;
        out.push(json!({"id": format!("self-{}-{}", seed, i), "fam": "selfcheck", "mode": mode,
                         "s": px(s), "d": px(d), "cov": cov, "clip": clip, "t": t}));
    }
    out
}
