//! Binding of the rasteriser's curve-edge machine (spec/CurveEdge.tla): the hook
//! `verif_curve_edge` runs `add_edge` and `ActiveEdge::step` for single quadratic edges given on
//! the quarter-pixel lattice; the shift and the per-row 16.16 x positions are recorded.
use crate::util::*;
use raqote::*;
use serde_json::{json, Value};

pub fn run(sc: &Value) -> Value {
    let w = int(&sc["w"]);
    let h = int(&sc["h"]);
    let mut res = Vec::new();
    // mode "shift": only the subdivision shift is recorded (many large edges, cheap to validate)
    let full = sc["mode"].as_str() != Some("shift");
    for e in sc["edges"].as_array().unwrap() {
        let c = |i: usize| int(&e[i]) as f32 / 4.0;
        let r = std::panic::catch_unwind(|| verif_curve_edge(Point::new(c(0), c(1)), Point::new(c(2), c(3)), Point::new(c(4), c(5)), w, h));
        res.push(match r {
            Ok(Some((shift, y0, xs))) => {
                if full {
                    json!({"shift": shift, "y0": y0, "xs": xs})
                } else {
                    json!({"shift": shift, "y0": y0, "xs": []})
                }
            }
            Ok(None) => json!({"shift": -1, "y0": -1, "xs": []}),
            Err(_) => json!({"shift": -2, "y0": -2, "xs": []}),
        });
    }
    let mut out = sc.as_object().unwrap().clone();
    out.insert("res".into(), Value::Array(res));
    out.insert("outcome".into(), json!("ok"));
    Value::Object(out)
}

/// y-monotonic quadratic edges with end points and control point on the quarter-pixel lattice
/// inside a `size` px square: random ones, plus a sweep of the direction of the second difference.
pub fn drive(seed: u64, n: usize, size: i32, per: usize) -> Vec<Value> {
    let mut r = Rng::new(seed ^ 0xCE);
    let m = size * 4;
    let mut out = Vec::new();
    for i in 0..n {
        let mut edges = Vec::new();
        for _ in 0..per {
            let y1 = r.range(0, (m / 2) as i64) as i32;
            let y2 = y1 + 1 + r.range(0, (m - y1 - 2) as i64) as i32;
            let cy = y1 + r.range(0, (y2 - y1) as i64) as i32;
            let x = |r: &mut Rng| r.range(0, m as i64) as i32;
            edges.push(json!([x(&mut r), y1, x(&mut r), cy, x(&mut r), y2]));
        }
        out.push(json!({"id": format!("drv-curveedge-{}-{}-{}", size, seed, i), "fam": "curveedge", "w": size, "h": size, "edges": edges,
                         "mode": if size > 100 { "shift" } else { "full" }}));
    }
    out
}
