//! Path-level families: contains_point (C17), flatten (C16), PathBuilder / Path::transform /
//! arc (C20).
use crate::canvas::{parse_path, parse_transform};
use crate::util::*;
use raqote::*;
use serde_json::{json, Value};

fn r1024(x: f32) -> Value {
    let v = (x as f64 * 1024.0).round();
    if v.is_finite() && v.abs() < 2.0e9 {
        json!(v as i64)
    } else {
        json!("f")
    }
}

/// Ops as tuples with coordinates in 1/1024 px (rounded; `exact` tells whether all were exact).
pub fn ops_1024(p: &Path) -> (Value, bool) {
    let mut exact = true;
    let mut c = |x: f32| {
        let v = x as f64 * 1024.0;
        if v != v.round() {
            exact = false;
        }
        r1024(x)
    };
    let mut out = Vec::new();
    for op in &p.ops {
        out.push(match *op {
            PathOp::MoveTo(p) => json!(["M", c(p.x), c(p.y)]),
            PathOp::LineTo(p) => json!(["L", c(p.x), c(p.y)]),
            PathOp::QuadTo(a, b) => json!(["Q", c(a.x), c(a.y), c(b.x), c(b.y)]),
            PathOp::CubicTo(a, b, d) => json!(["C", c(a.x), c(a.y), c(b.x), c(b.y), c(d.x), c(d.y)]),
            PathOp::Close => json!(["Z"]),
        });
    }
    (Value::Array(out), exact)
}

pub fn run(sc: &Value) -> Value {
    match sc["fam"].as_str().unwrap() {
        "contains" => run_contains(sc),
        "flatten" => run_flatten(sc),
        "builder" => run_builder(sc),
        "arc" => run_arc(sc),
        _ => unreachable!(),
    }
}

fn path_of(sc: &Value) -> Path {
    let den = den_of(sc, "den", 1.0);
    let mut p = parse_path(&json!({"ops": sc["ops"]}), den);
    p.winding = if sc["rule"].as_str() == Some("EvenOdd") { Winding::EvenOdd } else { Winding::NonZero };
    p
}

fn run_contains(sc: &Value) -> Value {
    let den = den_of(sc, "den", 1.0);
    let p = path_of(sc);
    // query points: every lattice point (in units of 1/den) of the bounding box grown by 2
    let mut xs: Vec<i64> = Vec::new();
    let mut ys: Vec<i64> = Vec::new();
    for op in sc["ops"].as_array().unwrap() {
        let a = op.as_array().unwrap();
        let mut i = 1;
        while i + 1 < a.len() {
            xs.push(a[i].as_i64().unwrap());
            ys.push(a[i + 1].as_i64().unwrap());
            i += 2;
        }
    }
    let (x0, x1, y0, y1) = if xs.is_empty() {
        (0, 0, 0, 0)
    } else {
        (*xs.iter().min().unwrap(), *xs.iter().max().unwrap(), *ys.iter().min().unwrap(), *ys.iter().max().unwrap())
    };
    let mut queries = Vec::new();
    let mut results = Vec::new();
    let mut outcome = "ok";
    let step = if sc.get("qstep").is_some() { int(&sc["qstep"]) as i64 } else { 1 };
    let mut y = y0 - 2;
    while y <= y1 + 2 {
        let mut x = x0 - 2;
        while x <= x1 + 2 {
            let r = std::panic::catch_unwind(|| p.contains_point(0.1, x as f32 / den, y as f32 / den));
            match r {
                Ok(b) => {
                    queries.push(json!([x, y]));
                    results.push(json!(b));
                }
                Err(_) => outcome = "panic",
            }
            x += step;
        }
        y += step;
    }
    // the same path filled (white on transparent): the surface covers the query grid, shifted so
    // that the query point (x0 - 2, y0 - 2) is the surface origin; odd lattice points (in half
    // pixels) are pixel centres
    let (fw, fh) = ((((x1 - x0) + 5) / 2 + 1) as i32, (((y1 - y0) + 5) / 2 + 1) as i32);
    let mut fill_pix = Value::Null;
    if den == 2.0 && fw <= 64 && fh <= 64 {
        let mut dt = DrawTarget::new(fw, fh);
        let ox = (x0 - 2) as f32 / den;
        let oy = (y0 - 2) as f32 / den;
        let r = std::panic::catch_unwind(std::panic::AssertUnwindSafe(|| {
            dt.set_transform(&Transform::translation(-ox, -oy));
            dt.fill(&p, &Source::Solid(SolidSource { r: 255, g: 255, b: 255, a: 255 }), &DrawOptions::new());
        }));
        if r.is_ok() {
            fill_pix = json!(dt.get_data().iter().map(|p| p >> 24).collect::<Vec<u32>>());
        }
    }
    let mut o = json!({"id": sc["id"], "fam": "contains", "den": sc["den"], "ops": sc["ops"], "rule": sc["rule"],
           "outcome": outcome, "queries": queries, "results": results, "gx": x0 - 2, "gy": y0 - 2, "fw": fw, "fh": fh});
    if !fill_pix.is_null() {
        o["fill_alpha"] = fill_pix;
    }
    o
}

fn run_flatten(sc: &Value) -> Value {
    let p = path_of(sc);
    let tol = num(&sc["tol"]);
    let r = std::panic::catch_unwind(|| p.flatten(tol));
    match r {
        Ok(f) => {
            let (ops, _) = ops_1024(&f);
            json!({"id": sc["id"], "fam": "flatten", "den": sc["den"], "ops": sc["ops"], "tol": sc["tol"],
                   "rule": sc["rule"], "out_rule": format!("{:?}", f.winding),
                   "outcome": "ok", "out": ops})
        }
        Err(_) => json!({"id": sc["id"], "fam": "flatten", "den": sc["den"], "ops": sc["ops"], "tol": sc["tol"], "rule": sc["rule"], "out_rule": "?", "outcome": "panic", "out": []}),
    }
}

/// PathBuilder call sequences and Path::transform.  Calls: ["move_to",x,y] ["line_to",x,y]
/// ["quad_to",..] ["cubic_to",..] ["close"] ["rect",x,y,w,h]; optional transform.
fn run_builder(sc: &Value) -> Value {
    let den = den_of(sc, "den", 1.0);
    let r = std::panic::catch_unwind(|| {
        let mut pb = PathBuilder::new();
        for c in sc["calls"].as_array().unwrap() {
            let a = |i: usize| numd(&c[i], den);
            match c[0].as_str().unwrap() {
                "move_to" => pb.move_to(a(1), a(2)),
                "line_to" => pb.line_to(a(1), a(2)),
                "quad_to" => pb.quad_to(a(1), a(2), a(3), a(4)),
                "cubic_to" => pb.cubic_to(a(1), a(2), a(3), a(4), a(5), a(6)),
                "close" => pb.close(),
                "rect" => pb.rect(a(1), a(2), a(3), a(4)),
                // angles are plain radians given as rationals
                "arc" => pb.arc(a(1), a(2), a(3), num(&c[4]), num(&c[5])),
                k => panic!("bad builder call {}", k),
            }
        }
        let mut p = pb.finish();
        let w0 = p.winding;
        if sc["set_evenodd"].as_bool().unwrap_or(false) {
            p.winding = Winding::EvenOdd;
        }
        let before = ops_1024(&p);
        let t = sc.get("transform").map(parse_transform);
        let q = match &t {
            Some(t) => p.clone().transform(t),
            None => p.clone(),
        };
        (w0, before, ops_1024(&q), q.winding)
    });
    match r {
        Ok((w0, (b, bexact), (a, aexact), w1)) => json!({
            "id": sc["id"], "fam": "builder", "den": sc["den"], "calls": sc["calls"],
            "transform": sc.get("transform").cloned().unwrap_or(json!({"m": [1, 0, 0, 1, 0, 0], "mden": 1})),
            "set_evenodd": sc["set_evenodd"].as_bool().unwrap_or(false),
            "outcome": "ok", "finish_winding": format!("{:?}", w0), "built": b, "built_exact": bexact,
            "transformed": a, "transformed_exact": aexact, "transformed_winding": format!("{:?}", w1),
        }),
        Err(_) => json!({"id": sc["id"], "fam": "builder", "outcome": "panic"}),
    }
}

/// PathBuilder::arc: the emitted ops, and every quadratic sampled at t = i/8 (harness f64,
/// rounded to 1/1024 px) so that the specification can check radius, direction and extent.
fn run_arc(sc: &Value) -> Value {
    let x = num(&sc["x"]);
    let y = num(&sc["y"]);
    let r = num(&sc["r"]);
    // angles are given as directions (a + b i) / n plus a number of quarter turns, so that the
    // specification knows their cosines and sines exactly; the harness turns them into f32 radians
    let ang = |v: &Value| (num(&v[1]) as f64).atan2(num(&v[0]) as f64);
    let start = ang(&sc["start_dir"]) as f32;
    let sign = if int(&sc["sign"]) >= 0 { 1.0 } else { -1.0 };
    let sweep = (sign * (int(&sc["quarters"]) as f64 * std::f64::consts::FRAC_PI_2 + ang(&sc["sweep_dir"]))) as f32;
    let res = std::panic::catch_unwind(|| {
        let mut pb = PathBuilder::new();
        if sc["pre_move"].as_bool().unwrap_or(true) {
            pb.move_to(x - 2.0 * r - 3.0, y + 1.0);
        }
        pb.arc(x, y, r, start, sweep);
        pb.finish()
    });
    let p = match res {
        Ok(p) => p,
        Err(_) => return json!({"id": sc["id"], "fam": "arc", "outcome": "panic"}),
    };
    let mut kinds = Vec::new();
    let mut samples: Vec<Value> = Vec::new();
    let mut cur: Option<Point> = None;
    let mut first_line: Option<Point> = None;
    for op in &p.ops {
        match *op {
            PathOp::MoveTo(q) => {
                kinds.push("M");
                cur = Some(q);
            }
            PathOp::LineTo(q) => {
                kinds.push("L");
                if first_line.is_none() {
                    first_line = Some(q);
                }
                cur = Some(q);
            }
            PathOp::QuadTo(c, q) => {
                kinds.push("Q");
                let s = cur.unwrap_or(c);
                for i in 0..=8 {
                    let t = i as f64 / 8.0;
                    let bx = (1.0 - t) * (1.0 - t) * s.x as f64 + 2.0 * t * (1.0 - t) * c.x as f64 + t * t * q.x as f64;
                    let by = (1.0 - t) * (1.0 - t) * s.y as f64 + 2.0 * t * (1.0 - t) * c.y as f64 + t * t * q.y as f64;
                    if i > 0 || samples.is_empty() {
                        samples.push(json!([((bx - x as f64) * 1024.0).round() as i64, ((by - y as f64) * 1024.0).round() as i64]));
                    }
                }
                cur = Some(q);
            }
            PathOp::CubicTo(_, _, q) => {
                kinds.push("C");
                cur = Some(q);
            }
            PathOp::Close => kinds.push("Z"),
        }
    }
    let fl = first_line.map(|q| json!([((q.x as f64 - x as f64) * 1024.0).round() as i64, ((q.y as f64 - y as f64) * 1024.0).round() as i64])).unwrap_or(json!([]));
    json!({"id": sc["id"], "fam": "arc", "outcome": "ok", "r1024": (r as f64 * 1024.0).round() as i64,
           "start_dir": sc["start_dir"], "sweep_dir": sc["sweep_dir"], "quarters": sc["quarters"], "sign": sc["sign"], "pre_move": sc["pre_move"].as_bool().unwrap_or(true),
           "kinds": kinds, "first_line": fl, "samples": samples})
}

pub fn drive(_fam: &str, _seed: u64, _n: usize) -> Vec<Value> {
    Vec::new()
}
