//! C15: copy_surface / blend_surface / blend_surface_with_alpha.
use crate::util::*;
use raqote::*;
use serde_json::{json, Value};

pub fn src_pattern(n: usize) -> Vec<u32> {
    (0..n)
        .map(|k| {
            let k = k as u32;
            let a = [255u32, 128, 200, 64, 255, 33][(k % 6) as usize];
            let r = (10 + 7 * k).min(a);
            let g = (20 + 3 * k).min(a);
            let b = (5 * k).min(a);
            (a << 24) | (r << 16) | (g << 8) | b
        })
        .collect()
}

pub fn dst_pattern(n: usize) -> Vec<u32> {
    (0..n)
        .map(|k| {
            let k = k as u32;
            let a = 255 - (3 * k) % 200;
            let r = (200u32.saturating_sub(5 * k)).min(a);
            let g = (30 + 2 * k).min(a);
            let b = (90 + k).min(a);
            (a << 24) | (r << 16) | (g << 8) | b
        })
        .collect()
}

pub fn run(sc: &Value) -> Value {
    let sw = int(&sc["sw"]);
    let sh = int(&sc["sh"]);
    let dw = int(&sc["dw"]);
    let dh = int(&sc["dh"]);
    let r = &sc["rect"];
    let rect = IntRect::new(IntPoint::new(int(&r[0]), int(&r[1])), IntPoint::new(int(&r[2]), int(&r[3])));
    let dst = IntPoint::new(int(&sc["dst"][0]), int(&sc["dst"][1]));
    let kind = sc["kind"].as_str().unwrap();
    let mode = sc["mode"].as_str().unwrap_or("SrcOver");
    let alpha = if sc.get("alpha").is_some() { num(&sc["alpha"]) } else { 1.0 };
    let noise = sc["noise"].as_bool().unwrap_or(false);

    let srcpix = src_pattern((sw * sh) as usize);
    let dstpix = dst_pattern((dw * dh) as usize);
    let src = DrawTarget::from_vec(sw, sh, srcpix.clone());
    let mut d = DrawTarget::from_vec(dw, dh, dstpix.clone());
    if noise {
        d.set_transform(&Transform::new(2., 0., 0., 3., 1., -2.));
        d.push_clip_rect(IntRect::new(IntPoint::new(0, 0), IntPoint::new(1, 1)));
        d.push_layer(0.5);
    }
    let res = std::panic::catch_unwind(std::panic::AssertUnwindSafe(|| match kind {
        "copy" => d.copy_surface(&src, rect, dst),
        "blend" => d.blend_surface(&src, rect, dst, blend_mode(mode)),
        "alpha" => d.blend_surface_with_alpha(&src, rect, dst, alpha),
        _ => panic!("bad kind"),
    }));
    let outcome = match &res {
        Ok(_) => "ok".to_string(),
        Err(e) => format!("panic: {}", crate::panic_msg(e)),
    };
    if noise && res.is_ok() {
        d.pop_layer();
        d.pop_clip();
    }
    json!({
        "id": sc["id"], "fam": "surface",
        "sw": sw, "sh": sh, "dw": dw, "dh": dh, "rect": sc["rect"], "dst": sc["dst"],
        "kind": kind, "mode": mode,
        "alpha": if sc.get("alpha").is_some() { sc["alpha"].clone() } else { json!([1, 1]) },
        "noise": noise,
        "outcome": if res.is_ok() { "ok" } else { "panic" }, "msg": outcome,
        "src": pix(&srcpix), "before": pix(&dstpix), "after": pix(d.get_data()),
    })
}

/// Random scenarios over larger domains than TLC enumerates: sizes up to 8, rectangles and
/// destinations far outside.
pub fn drive(seed: u64, n: usize) -> Vec<Value> {
    let mut rng = Rng::new(seed ^ 0x5157);
    let modes = ["Src", "SrcOver", "DstOver", "SrcIn", "DstOut", "Xor", "Add", "Multiply", "Screen", "Clear", "Dst", "Darken"];
    let mut out = Vec::new();
    for i in 0..n {
        let big = rng.chance(1, 8);
        let c = |rng: &mut Rng, lo: i64, hi: i64| if big && rng.chance(1, 3) { rng.range(-100000, 100000) } else { rng.range(lo, hi) };
        let sw = rng.range(0, 8);
        let sh = rng.range(0, 8);
        let dw = rng.range(0, 8);
        let dh = rng.range(0, 8);
        let x0 = c(&mut rng, -3, 9);
        let y0 = c(&mut rng, -3, 9);
        let (x1, y1) = if rng.chance(1, 6) { (c(&mut rng, -3, 9), c(&mut rng, -3, 9)) } else { (x0 + rng.range(0, 9), y0 + rng.range(0, 9)) };
        let kind = *rng.pick(&["copy", "blend", "alpha"]);
        let a = rng.range(0, 255);
        out.push(json!({
            "id": format!("drv-surface-{}-{}", seed, i), "fam": "surface",
            "sw": sw, "sh": sh, "dw": dw, "dh": dh, "rect": [x0, y0, x1, y1],
            "dst": [c(&mut rng, -9, 9), c(&mut rng, -9, 9)],
            "kind": kind, "mode": *rng.pick(&modes), "alpha": [a, 255], "noise": rng.chance(1, 4),
        }));
    }
    out
}
