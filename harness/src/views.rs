//! C19 (pixel word layout, byte views, PNG export, buffer round trips) and the colour
//! conversions of C18.
use crate::util::*;
use raqote::*;
use serde_json::{json, Value};

fn split(w: u32) -> Value {
    px(w)
}

pub fn run(sc: &Value) -> Value {
    match sc["kind"].as_str().unwrap_or("views") {
        "convert" => run_convert(sc),
        _ => run_views(sc),
    }
}

/// from_unpremultiplied_argb(a, c, c2, c3) and From<Color> for one alpha and every c.
fn run_convert(sc: &Value) -> Value {
    let a = int(&sc["a"]) as u8;
    let mut out = Vec::new();
    for c in 0..=255u32 {
        let c2 = ((c * 7 + 3) % 256) as u8;
        let c3 = (255 - c) as u8;
        let s = SolidSource::from_unpremultiplied_argb(a, c as u8, c2, c3);
        let t: SolidSource = Color::new(a, c as u8, c2, c3).into();
        let src: Source = Color::new(a, c as u8, c2, c3).into();
        let u = match src {
            Source::Solid(x) => x,
            _ => unreachable!(),
        };
        out.push(json!([[c, c2, c3], [s.a, s.r, s.g, s.b], [t.a, t.r, t.g, t.b], [u.a, u.r, u.g, u.b], split(s.to_u32())]));
    }
    json!({"id": sc["id"], "fam": "views", "kind": "convert", "a": a, "rows": out, "outcome": "ok"})
}

fn observe<B: AsRef<[u32]> + AsMut<[u32]>>(dt: &DrawTarget<B>, tag: &str) -> Value {
    let words = pix(dt.get_data());
    let bytes: Vec<u32> = dt.get_data_u8().iter().map(|b| *b as u32).collect();
    let path = std::env::temp_dir().join(format!("rqconf-{}-{}.png", std::process::id(), tag));
    let mut o = json!({"words": words, "bytes": bytes, "png_w": 0, "png_h": 0, "png_kind": "none", "png": []});
    match dt.write_png(&path) {
        Ok(()) => {
            if let Ok(f) = std::fs::File::open(&path) {
                let dec = png::Decoder::new(f);
                if let Ok(mut rd) = dec.read_info() {
                    let mut buf = vec![0u8; rd.output_buffer_size()];
                    if let Ok(info) = rd.next_frame(&mut buf) {
                        o["png_w"] = json!(info.width);
                        o["png_h"] = json!(info.height);
                        o["png_kind"] = json!(format!("{:?}{}", info.color_type, match info.bit_depth { png::BitDepth::Eight => "8", _ => "x" }));
                        o["png"] = json!(buf[..info.buffer_size()].iter().map(|b| *b as u32).collect::<Vec<u32>>());
                    }
                }
            }
        }
        Err(_) => {
            o["png_kind"] = json!("error");
        }
    }
    let _ = std::fs::remove_file(&path);
    o
}

fn apply_write<B: AsRef<[u32]> + AsMut<[u32]>>(dt: &mut DrawTarget<B>, w: &Value) {
    match w[0].as_str().unwrap() {
        "word" => dt.get_data_mut()[int(&w[1]) as usize] = unpx(&w[2]),
        _ => dt.get_data_u8_mut()[int(&w[1]) as usize] = int(&w[2]) as u8,
    }
}

fn run_views(sc: &Value) -> Value {
    let w = int(&sc["w"]);
    let h = int(&sc["h"]);
    let ctor = sc["ctor"].as_str().unwrap();
    let pixels = unpix(&sc["pixels"]);
    let writes = sc["writes"].as_array().unwrap();
    let tag = format!("{:x}", sc["id"].as_str().map(|s| s.len()).unwrap_or(0) + writes.len() * 131 + (w * 7 + h) as usize);
    let layer = sc["layer"].as_bool().unwrap_or(false);
    let r = std::panic::catch_unwind(|| {
        let mut obs = Vec::new();
        let into;
        if ctor == "from_backing" {
            let mut dt = DrawTarget::from_backing(w, h, pixels.clone());
            if layer {
                dt.push_layer(0.5);
            }
            obs.push(observe(&dt, &tag));
            for wr in writes {
                apply_write(&mut dt, wr);
                obs.push(observe(&dt, &tag));
            }
            into = pix(&dt.into_inner());
        } else {
            let mut dt = if ctor == "new" { DrawTarget::new(w, h) } else { DrawTarget::from_vec(w, h, pixels.clone()) };
            // an open layer changes nothing: all four views, the PNG export and into_vec are the surface
            if layer {
                dt.push_layer(0.5);
            }
            obs.push(observe(&dt, &tag));
            for wr in writes {
                apply_write(&mut dt, wr);
                obs.push(observe(&dt, &tag));
            }
            into = pix(&dt.into_vec());
        }
        (obs, into)
    });
    let c = &sc["solid"];
    let solid = SolidSource { a: int(&c[0]) as u8, r: int(&c[1]) as u8, g: int(&c[2]) as u8, b: int(&c[3]) as u8 };
    match r {
        Ok((obs, into)) => json!({"id": sc["id"], "fam": "views", "kind": "views", "w": w, "h": h, "ctor": ctor,
                                   "pixels": sc["pixels"], "writes": sc["writes"], "outcome": "ok", "obs": obs, "into": into,
                                   "solid": sc["solid"], "solid_word": split(solid.to_u32())}),
        Err(e) => json!({"id": sc["id"], "fam": "views", "kind": "views", "outcome": "panic", "msg": crate::panic_msg(&e)}),
    }
}

pub fn drive(_seed: u64, _n: usize) -> Vec<Value> {
    (0..256).map(|a| json!({"id": format!("conv-{}", a), "fam": "views", "kind": "convert", "a": a})).collect()
}
