//! C19 (pixel word layout, byte views, PNG export, buffer round trips) and the colour
//! conversions of C18.
use crate::util::*;
use raqote::*;
use serde_json::{json, Value};

fn split(w: u32) -> Value {
    px(w)
}

pub fn run(sc: &Value) -> Value {
    match sc["kind"].as_str().unwrap_or("views") {
        "convert" => run_convert(sc),
        _ => run_views(sc),
    }
}

/// from_unpremultiplied_argb(a, c, c2, c3) and From<Color> for one alpha and every c.
fn run_convert(sc: &Value) -> Value {
    let a = int(&sc["a"]) as u8;
    let mut out = Vec::new();
    for c in 0..=255u32 {
        let c2 = ((c * 7 + 3) % 256) as u8;
        let c3 = (255 - c) as u8;
        let s = SolidSource::from_unpremultiplied_argb(a, c as u8, c2, c3);
        let t: SolidSource = Color::new(a, c as u8, c2, c3).into();
        let src: Source = Color::new(a, c as u8, c2, c3).into();
        let u = match src {
            Source::Solid(x) => x,
            _ => unreachable!(),
        };
        out.push(json!([[c, c2, c3], [s.a, s.r, s.g, s.b], [t.a, t.r, t.g, t.b], [u.a, u.r, u.g, u.b], split(s.to_u32())]));
    }
    json!({"id": sc["id"], "fam": "views", "kind": "convert", "a": a, "rows": out, "outcome": "ok"})
}

fn run_views(sc: &Value) -> Value {
    json!({"id": sc["id"], "fam": "views", "kind": "views", "outcome": "unimplemented"})
}

pub fn drive(_seed: u64, _n: usize) -> Vec<Value> {
    (0..256).map(|a| json!({"id": format!("conv-{}", a), "fam": "views", "kind": "convert", "a": a})).collect()
}
