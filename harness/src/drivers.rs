//! Seeded random scenario drivers.  They produce scenarios of the same JSON schema as the
//! TLC generators (Gen_*.tla) but draw every parameter from larger domains than the menus TLC
//! enumerates: random lattice polygons, rectangles, images, gradient stops, styles, histories.
//! Everything stays on the lattices on which the specification is exact.
use crate::util::*;
use serde_json::{json, Value};

pub const BLEND_WEIGHTED: [&str; 34] = [
    "SrcOver", "SrcOver", "SrcOver", "SrcOver", "SrcOver", "SrcOver",
    "Dst", "Src", "Clear", "SrcOver", "DstOver", "SrcIn", "DstIn", "SrcOut", "DstOut", "SrcAtop",
    "DstAtop", "Xor", "Add", "Screen", "Overlay", "Darken", "Lighten", "ColorDodge", "ColorBurn",
    "HardLight", "SoftLight", "Difference", "Exclusion", "Multiply", "Hue", "Saturation", "Color",
    "Luminosity",
];

fn pxv(p: u32) -> Value {
    px(p)
}

fn alpha(r: &mut Rng) -> Value {
    match r.range(0, 5) {
        0 | 1 => json!([1, 1]),
        2 => json!([1, 2]),
        3 => json!([0, 1]),
        _ => json!([r.range(1, 254), 255]),
    }
}

fn opts(r: &mut Rng) -> Value {
    json!({"blend": *r.pick(&BLEND_WEIGHTED), "alpha": alpha(r), "aa": !r.chance(1, 5)})
}

/// a random polygon path on the quarter-pixel lattice of a w x h surface (den = 4)
fn poly(r: &mut Rng, w: i64, h: i64, scale: i64) -> Value {
    let mut ops = Vec::new();
    let loops = if r.chance(1, 4) { 2 } else { 1 };
    for li in 0..loops {
        let nv = r.range(3, 6);
        for i in 0..nv {
            let x = r.range(-6, 4 * w + 6) * scale;
            let y = r.range(-6, 4 * h + 6) * scale;
            let k = if i == 0 && !(li == 0 && r.chance(1, 8)) { "M" } else { "L" };
            ops.push(json!([k, x, y]));
        }
        if r.chance(1, 2) {
            ops.push(json!(["Z"]));
        }
    }
    let mut p = json!({ "ops": ops });
    if r.chance(1, 3) {
        p["winding"] = json!("EvenOdd");
    }
    p
}

fn image(r: &mut Rng) -> Value {
    let w = r.range(1, 4);
    let h = r.range(1, 4);
    let data: Vec<Value> = (0..w * h).map(|_| pxv(r.premul())).collect();
    json!({"w": w, "h": h, "data": data})
}

fn stops(r: &mut Rng) -> Value {
    let n = r.range(1, 5);
    let mut pos: Vec<i64> = (0..n).map(|_| r.range(0, 8)).collect();
    pos.sort();
    let v: Vec<Value> = pos
        .iter()
        .map(|p| json!([[p, 8], [*r.pick(&[255, 255, 128, 0, 64]), r.range(0, 255), r.range(0, 255), r.range(0, 255)]]))
        .collect();
    Value::Array(v)
}

fn source(r: &mut Rng) -> Value {
    match r.range(0, 9) {
        0..=4 => json!({"kind": "solid", "c": pxv(r.premul())}),
        5 | 6 => {
            let d = *r.pick(&[1i64, 1, 2, 4]);
            json!({"kind": "image", "img": image(r), "extend": *r.pick(&["Pad", "Repeat"]),
                   "filter": *r.pick(&["Nearest", "Bilinear"]),
                   "m": [d, 0, 0, d, r.range(-8, 8), r.range(-8, 8)], "mden": d * *r.pick(&[1i64, 1, 2])})
        }
        7 => {
            let st = [r.range(-8, 24), r.range(-8, 24)];
            // one linear gradient in five is degenerate (start == end): whatever it paints must still be a valid colour
            let en = if r.chance(1, 5) { st } else { [r.range(-8, 40), r.range(-8, 40)] };
            json!({"kind": "linear", "stops": stops(r), "start": st, "end": en, "spread": *r.pick(&["Pad", "Repeat", "Reflect"])})
        }
        _ => json!({"kind": "radial", "stops": stops(r), "center": [r.range(-8, 40), r.range(-8, 40)],
                    "radius": r.range(2, 40), "spread": *r.pick(&["Pad", "Repeat", "Reflect"])}),
    }
}

/// transforms that keep den-4 user coordinates on the quarter-pixel device lattice
fn transform(r: &mut Rng, w: i64, h: i64) -> Value {
    match r.range(0, 9) {
        0..=2 => json!({"op": "set_transform", "m": [1, 0, 0, 1, 0, 0], "mden": 1}),
        3 => json!({"op": "set_transform", "m": [4, 0, 0, 4, r.range(-8, 8), r.range(-8, 8)], "mden": 4}),
        4 => json!({"op": "set_transform", "m": [2, 0, 0, 2, r.range(-6, 2), r.range(-6, 2)], "mden": 1}),
        5 => json!({"op": "set_transform", "m": [0, 1, -1, 0, w, 0], "mden": 1}),
        6 => json!({"op": "set_transform", "m": [-1, 0, 0, 1, w, 0], "mden": 1}),
        7 => json!({"op": "set_transform", "m": [1, 0, 0, -1, 0, h], "mden": 1}),
        8 => json!({"op": "set_transform", "m": [1, 0, 1, 1, 0, 0], "mden": 1}),
        _ => json!({"op": "set_transform", "m": *r.pick(&[[0, 0, 0, 0, 1, 1], [1, 2, 2, 4, 0, 0], [2, 0, 0, 0, 1, 0]]), "mden": 1}),
    }
}

fn draw(r: &mut Rng, w: i64, h: i64) -> Value {
    match r.range(0, 11) {
        0..=3 => json!({"op": "fill", "path": poly(r, w, h, 1), "src": source(r), "opts": opts(r)}),
        4 | 5 => {
            let int = r.chance(1, 2);
            let s = if int { 4 } else { 1 };
            json!({"op": "fill_rect", "r": [r.range(-2, 4 * w / s) * s, r.range(-2, 4 * h / s) * s, r.range(-3, 4 * w / s) * s, r.range(-3, 4 * h / s) * s],
                   "src": source(r), "opts": opts(r)})
        }
        6 => json!({"op": "clear", "color": pxv(r.premul())}),
        7 => {
            let mw = r.range(1, 4);
            let mh = r.range(1, 4);
            let data: Vec<i64> = (0..mw * mh).map(|_| *r.pick(&[0i64, 0, 1, 127, 128, 254, 255, 255, 60])).collect();
            json!({"op": "mask", "x": r.range(-2, w), "y": r.range(-2, h), "mw": mw, "mh": mh, "data": data, "src": source(r)})
        }
        8 => {
            let s = if r.chance(2, 3) { 4 } else { 1 };
            json!({"op": "draw_image_at", "x": r.range(-2, 4 * w / s) * s, "y": r.range(-2, 4 * h / s) * s, "img": image(r), "opts": opts(r)})
        }
        9 => {
            let img = image(r);
            let f = *r.pick(&[1i64, 2, 4]);
            json!({"op": "draw_image_with_size_at", "w": img["w"].as_i64().unwrap() * 4 * f, "h": img["h"].as_i64().unwrap() * 4 * f,
                   "x": r.range(-1, w) * 4, "y": r.range(-1, h) * 4, "img": img, "opts": opts(r)})
        }
        _ => json!({"op": "stroke", "path": poly(r, w, h, 1),
                    "style": {"width": *r.pick(&[0i64, 2, 4, 8, 12]), "cap": *r.pick(&["Butt", "Round", "Square"]),
                              "join": *r.pick(&["Miter", "Round", "Bevel"]), "miter": [*r.pick(&[1i64, 2, 4, 10]), 1]},
                    "src": source(r), "opts": opts(r)}),
    }
}

/// random properly nested histories on a w x h surface
pub fn canvas(fam: &str, seed: u64, n: usize) -> Vec<Value> {
    let mut r = Rng::new(seed ^ 0xCA57A5);
    let mut out = Vec::new();
    for i in 0..n {
        let w = r.range(3, 9);
        let h = r.range(3, 8);
        let mut calls: Vec<Value> = Vec::new();
        let mut stk: Vec<&str> = Vec::new();
        let len = r.range(2, 9);
        let mut draws = 0;
        for _ in 0..len {
            match r.range(0, 11) {
                0 => calls.push(transform(&mut r, w, h)),
                1 | 2 => {
                    let (x0, y0) = (r.range(-2, w), r.range(-2, h));
                    let rect = if r.chance(1, 6) { [x0, y0, r.range(-2, w + 2), r.range(-2, h + 2)] } else { [x0, y0, x0 + r.range(1, w), y0 + r.range(1, h)] };
                    calls.push(json!({"op": "push_clip_rect", "r": rect}));
                    stk.push("c");
                }
                3 => {
                    calls.push(json!({"op": "push_clip", "path": poly(&mut r, w, h, 1)}));
                    stk.push("c");
                }
                4 => {
                    calls.push(json!({"op": "push_layer", "opacity": alpha(&mut r), "blend": *r.pick(&BLEND_WEIGHTED)}));
                    stk.push("l");
                }
                5 => {
                    // one pop in four crosses: it pops the most recent entry of the other stack (a clip pushed before
                    // the open layer, or a layer under clips pushed inside it)
                    if r.chance(1, 4) && stk.len() >= 2 {
                        let top = *stk.last().unwrap();
                        if let Some(k) = stk.iter().rposition(|t| *t != top) {
                            let t = stk.remove(k);
                            calls.push(json!({"op": if t == "c" { "pop_clip" } else { "pop_layer" }}));
                            continue;
                        }
                    }
                    if let Some(t) = stk.pop() {
                        calls.push(json!({"op": if t == "c" { "pop_clip" } else { "pop_layer" }}));
                    }
                }
                _ => {
                    calls.push(draw(&mut r, w, h));
                    draws += 1;
                }
            }
        }
        if draws == 0 {
            calls.push(draw(&mut r, w, h));
        }
        while let Some(t) = stk.pop() {
            calls.push(json!({"op": if t == "c" { "pop_clip" } else { "pop_layer" }}));
        }
        out.push(json!({"id": format!("drv-{}-{}-{}", fam, seed, i), "fam": "canvas", "w": w, "h": h, "den": 4,
                         "init": "distinct", "fresh": fam == "canvas-history", "calls": calls}));
    }
    out
}

/// random source renders (C12 / C13)
pub fn shade(fam: &str, seed: u64, n: usize) -> Vec<Value> {
    let mut r = Rng::new(seed ^ 0x5AADE);
    let mut out = Vec::new();
    let ctms: [([i64; 6], i64); 9] = [([1, 0, 0, 1, 0, 0], 1), ([1, 0, 0, 1, 3, -2], 1), ([4, 0, 0, 4, 1, 3], 4), ([2, 0, 0, 2, 0, 1], 1),
        ([1, 0, 0, 1, 1, 0], 2), ([0, 1, -1, 0, 8, 0], 1), ([-1, 0, 0, 1, 8, 0], 1), ([0, 2, -2, 0, 9, 1], 1), ([2, 0, 0, 1, 0, 0], 1)];
    for i in 0..n {
        let c = r.pick(&ctms).clone();
        let kind = match fam {
            "shade-image" => "image",
            _ => *r.pick(&["linear", "radial", "sweep", "two_circle"]),
        };
        let src = match kind {
            "image" => {
                let d = *r.pick(&[1i64, 2, 4]);
                let s = *r.pick(&[1i64, 2, 4]);
                json!({"kind": "image", "img": image(&mut r), "extend": *r.pick(&["Pad", "Repeat"]), "filter": *r.pick(&["Nearest", "Bilinear"]),
                       "m": [s, 0, 0, s, r.range(-12, 12), r.range(-12, 12)], "mden": d})
            }
            "linear" => {
                let (sx, sy) = (r.range(-4, 10), r.range(-4, 10));
                let (mut ex, ey) = (r.range(-4, 12), r.range(-4, 12));
                if ex == sx && ey == sy {
                    ex += 3;
                }
                json!({"kind": "linear", "stops": stops(&mut r), "start": [sx, sy], "end": [ex, ey], "spread": *r.pick(&["Pad", "Repeat", "Reflect"])})
            }
            "radial" => json!({"kind": "radial", "stops": stops(&mut r), "center": [r.range(-2, 10), r.range(-2, 10)], "radius": r.range(1, 12),
                               "spread": *r.pick(&["Pad", "Repeat", "Reflect"])}),
            "sweep" => json!({"kind": "sweep", "stops": stops(&mut r), "center": [r.range(0, 8), r.range(0, 8)], "start_angle": 0,
                              "end_angle": *r.pick(&[360i64, 90, 180, 270, 45, 720]), "spread": *r.pick(&["Pad", "Repeat", "Reflect"])}),
            _ => {
                let (cx, cy, r2) = (r.range(1, 7), r.range(1, 7), r.range(3, 9));
                let r1 = r.range(0, r2 - 2);
                let room = r2 - r1 - 1;
                let (ox, oy) = (r.range(-room / 2, room / 2), r.range(-room / 2, room / 2));
                json!({"kind": "two_circle", "stops": stops(&mut r), "c1": [cx + ox, cy + oy], "r1": r1, "c2": [cx, cy], "r2": r2,
                       "spread": *r.pick(&["Pad", "Repeat", "Reflect"])})
            }
        };
        let mut sc = json!({"id": format!("drv-{}-{}-{}", fam, seed, i), "fam": "shade", "w": 8, "h": 8, "den": 1,
                         "ctm": {"m": c.0, "mden": c.1}, "alpha": alpha(&mut r), "via": "fill", "src": src});
        // one scenario in four is drawn (SrcOver) through a clip path whose left edge slants, so that spans start
        // left of the clip's coverage
        if r.chance(1, 4) {
            let clips = [json!({"ops": [["M", 3, 0], ["L", 8, 0], ["L", 8, 8], ["L", 0, 8]]}),
                         json!({"ops": [["M", 0, 0], ["L", 5, 0], ["L", 8, 8], ["L", 2, 8]]}),
                         json!({"ops": [["M", 4, 0], ["L", 8, 4], ["L", 4, 8], ["L", 0, 4]]})];
            sc["clip"] = r.pick(&clips).clone();
        }
        out.push(sc);
    }
    out
}

/// random polylines with integer-length segments (multiples of the 3-4-5 or 5-12-13 directions)
pub fn stroke(fam: &str, seed: u64, n: usize) -> Vec<Value> {
    let mut r = Rng::new(seed ^ 0x57207E);
    let mut out = Vec::new();
    for i in 0..n {
        let k = if r.chance(2, 3) { 5i64 } else { 13 };
        let dirs: Vec<(i64, i64)> = if k == 5 {
            vec![(1, 0), (-1, 0), (0, 1), (0, -1), (3, 4), (4, 3), (-3, 4), (4, -3), (-4, -3), (-3, -4), (3, -4), (-4, 3)]
        } else {
            vec![(1, 0), (-1, 0), (0, 1), (0, -1), (5, 12), (12, 5), (-5, 12), (12, -5), (-12, -5), (-5, -12)]
        };
        let mut ops = Vec::new();
        let nsub = if r.chance(1, 3) { 2 } else { 1 };
        for _ in 0..nsub {
            let mut p = (r.range(5, 19), r.range(5, 19));
            ops.push(json!(["M", p.0, p.1]));
            let first = p;
            let nseg = r.range(1, 4);
            for _ in 0..nseg {
                for _try in 0..8 {
                    let d = *r.pick(&dirs);
                    let unit = if d.0 == 0 || d.1 == 0 { 1 } else { 1 };
                    let mul = if d.0.abs() + d.1.abs() == 1 { r.range(3, 11) } else { r.range(1, if k == 5 { 2 } else { 1 }) * unit };
                    let q = (p.0 + d.0 * mul, p.1 + d.1 * mul);
                    if q.0 >= 2 && q.0 <= 22 && q.1 >= 2 && q.1 <= 22 {
                        p = q;
                        ops.push(json!(["L", p.0, p.1]));
                        break;
                    }
                }
            }
            // close only when the closing segment has integer length
            let (dx, dy) = (first.0 - p.0, first.1 - p.1);
            let l2 = dx * dx + dy * dy;
            let l = (l2 as f64).sqrt().round() as i64;
            if l * l == l2 && r.chance(1, 2) {
                ops.push(json!(["Z"]));
            }
        }
        let mut style = json!({"width": *r.pick(&[2i64, 3, 4, 5, 6, 8]), "cap": *r.pick(&["Butt", "Round", "Square"]),
                               "join": *r.pick(&["Miter", "Round", "Bevel"]), "miter": *r.pick(&[[1i64, 1], [3, 2], [4, 1], [10, 1], [2, 1]])});
        if fam == "dash" {
            let nd = r.range(1, 6);
            let d: Vec<i64> = (0..nd).map(|_| *r.pick(&[3i64, 4, 5, 6, 8, 10, 15, 30, 60])).collect();
            style["dash"] = json!(d);
            style["dash_offset"] = json!(r.range(-70, 70));
        }
        let mut t = *r.pick(&[([1i64, 0, 0, 1, 0, 0], 1i64), ([1, 0, 0, 1, 0, 0], 1), ([2, 0, 0, 2, 1, 1], 4), ([0, 1, -1, 0, 24, 0], 1),
                          ([2, 0, 0, 2, -20, -18], 1), ([-1, 0, 0, 1, 24, 0], 1), ([3, 4, -4, 3, 40, -20], 5), ([4, -3, 3, 4, -10, 30], 5)]);
        if fam == "stroke-offsurf" {
            // every vertex lies off the surface by just more than half the width; only miter tips and the corners of
            // square caps reach onto it (a stroke must not be culled by the bounding box of its vertices)
            let w = *r.pick(&[6i64, 8, 10]);
            style["width"] = json!(w);
            if r.chance(2, 3) {
                style["join"] = json!("Miter");
                style["miter"] = json!([10, 1]);
            }
            if r.chance(1, 2) {
                style["cap"] = json!("Square");
            }
            let pts: Vec<(i64, i64)> = ops.iter().filter(|o| o[0] != "Z").map(|o| (o[1].as_i64().unwrap(), o[2].as_i64().unwrap())).collect();
            let (minx, maxx) = (pts.iter().map(|p| p.0).min().unwrap(), pts.iter().map(|p| p.0).max().unwrap());
            let (miny, maxy) = (pts.iter().map(|p| p.1).min().unwrap(), pts.iter().map(|p| p.1).max().unwrap());
            let m = w / 2 + 1;
            let (cx, cy) = (12 - (minx + maxx) / 2, 12 - (miny + maxy) / 2);
            let tr = match r.range(0, 3) {
                0 => (-m - maxx, cy),
                1 => (24 + m - minx, cy),
                2 => (cx, -m - maxy),
                _ => (cx, 24 + m - miny),
            };
            t = ([1, 0, 0, 1, tr.0, tr.1], 1);
        }
        // the fill rule of the path that is stroked must not matter: a stroke paints the union of its pieces
        let rule = if r.chance(1, 3) { "EvenOdd" } else { "NonZero" };
        out.push(json!({"id": format!("drv-{}-{}-{}", fam, seed, i), "fam": "stroke", "kind": "stroke", "w": 24, "h": 24, "den": 1,
                         "ops": ops, "rule": rule, "style": style, "ctm": {"m": t.0, "mden": t.1}, "want_dash_path": fam == "dash", "k": k}));
    }
    out
}

/// random curved paths on the half-pixel lattice (C08, C16 and curved strokes)
pub fn curve(fam: &str, seed: u64, n: usize) -> Vec<Value> {
    let mut r = Rng::new(seed ^ 0xC0B7E);
    let mut out = Vec::new();
    for i in 0..n {
        let mut ops = Vec::new();
        let nops = r.range(2, 6);
        let mut pt = |r: &mut Rng| (r.range(-8, 40), r.range(-8, 40));
        let mut has_curve = false;
        // the current point, as far as it is known (after M / L / Q / C): one curve in six returns to it exactly
        // (a cubic that ends where it starts is a loop with an interior), one cubic in eight has equal control points
        let mut cur: Option<(i64, i64)> = None;
        for j in 0..nops {
            match r.range(0, 9) {
                0 | 1 if j > 0 && ops.last().map(|o: &Value| o[0] != "Z").unwrap_or(false) => {
                    ops.push(json!(["Z"]));
                    cur = None;
                }
                0 | 1 | 2 => {
                    let p = pt(&mut r);
                    ops.push(json!(["M", p.0, p.1]));
                    cur = Some(p);
                }
                3 | 4 => {
                    let p = pt(&mut r);
                    ops.push(json!(["L", p.0, p.1]));
                    cur = Some(p);
                }
                5 | 6 => {
                    let (c, mut p) = (pt(&mut r), pt(&mut r));
                    if let (Some(q), true) = (cur, r.chance(1, 6)) {
                        p = q;
                    }
                    ops.push(json!(["Q", c.0, c.1, p.0, p.1]));
                    has_curve = true;
                    cur = Some(p);
                }
                _ => {
                    let (c, mut d, mut p) = (pt(&mut r), pt(&mut r), pt(&mut r));
                    if let (Some(q), true) = (cur, r.chance(1, 6)) {
                        p = q;
                    }
                    if r.chance(1, 8) {
                        d = c;
                    }
                    ops.push(json!(["C", c.0, c.1, d.0, d.1, p.0, p.1]));
                    has_curve = true;
                    cur = Some(p);
                }
            }
        }
        if !has_curve {
            let (c, p) = (pt(&mut r), pt(&mut r));
            ops.push(json!(["Q", c.0, c.1, p.0, p.1]));
        }
        let t = *r.pick(&[([1i64, 0, 0, 1, 0, 0], 1i64), ([1, 0, 0, 1, 2, -1], 1), ([2, 0, 0, 2, -8, -10], 1), ([0, 1, -1, 0, 16, 0], 1),
                          ([-1, 0, 0, 1, 16, 0], 1), ([1, 0, 0, 1, 0, 0], 2), ([2, 0, 0, 2, 1, 1], 2), ([1, 0, 0, -1, 0, 16], 1)]);
        let rule = if r.chance(1, 2) { "NonZero" } else { "EvenOdd" };
        if fam == "flatten" {
            out.push(json!({"id": format!("drv-{}-{}-{}", fam, seed, i), "fam": "flatten", "den": 2, "ops": ops, "rule": rule,
                             "tol": *r.pick(&[[1i64, 1], [1, 2], [1, 4], [1, 10], [1, 16], [1, 64], [3, 1]])}));
        } else {
            out.push(json!({"id": format!("drv-{}-{}-{}", fam, seed, i), "fam": "stroke", "kind": if r.chance(1, 5) { "clip" } else { "fill" },
                             "w": 16, "h": 16, "den": 2, "ops": ops, "rule": rule, "ctm": {"m": t.0, "mden": t.1}}));
        }
    }
    out
}

/// curved paths with arbitrary (non-lattice) control points, arcs and arbitrary invertible
/// transforms; the harness quantises the true outline for the specification (`quantize`)
pub fn curve_float(fam: &str, seed: u64, n: usize) -> Vec<Value> {
    let mut r = Rng::new(seed ^ 0xF10A7 ^ (fam.len() as u64) << 20);
    // "curve-big": the same shapes four times larger on a 64 x 64 surface (curves long enough for the
    // rasteriser's subdivision count to matter), at most 3 ops
    let big = fam == "curve-big";
    let sf = if big { 4.0 } else { 1.0 };
    let size = if big { 64 } else { 16 };
    let mut out = Vec::new();
    for i in 0..n {
        let mut ops = Vec::new();
        let nops = if big { r.range(2, 3) } else { r.range(2, 5) };
        let pt = |r: &mut Rng| ((r.frange(-1.0, 17.0) * sf * 1000.0).round() / 1000.0, (r.frange(-1.0, 17.0) * sf * 1000.0).round() / 1000.0);
        for j in 0..nops {
            match r.range(0, 10) {
                0 if j > 0 => ops.push(json!(["Z"])),
                0 | 1 => {
                    let p = pt(&mut r);
                    ops.push(json!(["M", p.0, p.1]));
                }
                2 | 3 => {
                    let p = pt(&mut r);
                    ops.push(json!(["L", p.0, p.1]));
                }
                4 | 5 => {
                    let (c, p) = (pt(&mut r), pt(&mut r));
                    ops.push(json!(["Q", c.0, c.1, p.0, p.1]));
                }
                6 | 7 => {
                    let (c, d, p) = (pt(&mut r), pt(&mut r), pt(&mut r));
                    ops.push(json!(["C", c.0, c.1, d.0, d.1, p.0, p.1]));
                }
                _ => {
                    let c = ((r.frange(3.0, 13.0) * sf * 1000.0).round() / 1000.0, (r.frange(3.0, 13.0) * sf * 1000.0).round() / 1000.0);
                    ops.push(json!(["A", c.0, c.1, (r.frange(1.0, 5.0) * sf * 100.0).round() / 100.0,
                                    (r.frange(-7.0, 7.0) * 1000.0).round() / 1000.0, (r.frange(-8.0, 8.0) * 1000.0).round() / 1000.0]));
                }
            }
        }
        // rotation by a random angle, anisotropic scale, shear, translation; kept well conditioned
        let a = r.frange(0.0, 6.283);
        let (sx, sy) = (r.frange(0.5, 1.3), r.frange(0.5, 1.3) * if r.chance(1, 5) { -1.0 } else { 1.0 });
        let sh = if r.chance(1, 3) { r.frange(-0.3, 0.3) } else { 0.0 };
        let (ca, sa) = (a.cos(), a.sin());
        // M = rot * shear * scale
        let m11 = ca * sx;
        let m12 = sa * sx;
        let m21 = (ca * sh - sa) * sy;
        let m22 = (sa * sh + ca) * sy;
        let f = |v: f64| (v * 10000.0).round() / 10000.0;
        // translate so that the user-space point (8, 8) lands on the centre of the surface
        let (m31, m32) = (8.0 - (8.0 * m11 + 8.0 * m21), 8.0 - (8.0 * m12 + 8.0 * m22));
        let stroke = fam == "stroke-float";
        // strokes: similarities only (uniform scale, optional mirror), so the stroke is a tube
        let (m11, m12, m21, m22) = if stroke {
            let mir = if sy < 0.0 { -1.0 } else { 1.0 };
            (ca * sx, sa * sx, -sa * sx * mir, ca * sx * mir)
        } else {
            (m11, m12, m21, m22)
        };
        let cc = 8.0 * sf;
        let (m31, m32) = (cc - (cc * m11 + cc * m21), cc - (cc * m12 + cc * m22));
        let ident = r.chance(1, 4);
        if stroke {
            let m = if ident { vec![1.0, 0.0, 0.0, 1.0, 0.0, 0.0] } else { vec![f(m11), f(m12), f(m21), f(m22), f(m31), f(m32)] };
            let cap = ["Butt", "Round", "Square", "Round"][r.range(0, 3) as usize];
            out.push(json!({"id": format!("drv-{}-{}-{}", fam, seed, i), "fam": "stroke", "kind": "stroke",
                             "w": 16, "h": 16, "den": 1, "ops": ops,
                             "style": {"width": (r.frange(0.6, 9.0) * 100.0).round() / 100.0, "cap": cap, "join": "Round"},
                             "ctm": {"m": m, "mden": 1}, "quantize": true}));
            continue;
        }
        let m = if ident { vec![1.0, 0.0, 0.0, 1.0, 0.0, 0.0] } else { vec![f(m11), f(m12), f(m21), f(m22), f(m31), f(m32)] };
        out.push(json!({"id": format!("drv-{}-{}-{}", fam, seed, i), "fam": "stroke", "kind": if r.chance(1, 5) { "clip" } else { "fill" },
                         "w": size, "h": size, "den": 1, "ops": ops, "rule": if r.chance(1, 2) { "NonZero" } else { "EvenOdd" },
                         "ctm": {"m": m, "mden": 1}, "quantize": true, "stride": if big { 3 } else { 1 }}));
    }
    out
}

/// dash_path inputs without rendering (`render: false`, `want_dash_path`): 1-3 subpaths of 1-3
/// segments from an axis / 3-4-5 move menu (integer lengths), open or closed (only when the
/// closing segment has integer length), dash arrays of 1-4 entries, offsets of both signs.
/// Index-driven: scenario i of seed s is a function of (s, i), the first block enumerates the
/// single-subpath domain in order.
pub fn dashops(seed: u64, n: usize) -> Vec<Value> {
    let moves: [(i32, i32); 16] = [(1, 0), (2, 0), (3, 0), (5, 0), (0, 1), (0, 2), (0, 3), (-1, 0), (-2, 0), (0, -2), (3, 4), (4, 3), (-3, 4), (4, -3), (-4, -3), (0, -1)];
    let entries: [i32; 7] = [1, 2, 3, 5, 9, 15, 40];
    let mut r = Rng::new(seed ^ 0xDA5);
    let mut out = Vec::new();
    let isq = |v: i32| -> Option<i32> {
        let s = (v as f64).sqrt().round() as i32;
        if s * s == v { Some(s) } else { None }
    };
    let mut i = 0usize;
    while out.len() < n && i < n * 20 {
        i += 1;
        let nsub = match r.range(0, 9) { 0..=3 => 1, 4..=7 => 2, _ => 3 };
        let mut ops = Vec::new();
        let mut ok = true;
        let mut prev_closed_start: Option<(i32, i32)> = None;
        for _ in 0..nsub {
            let (mut x, mut y) = (r.range(8, 18) as i32, r.range(8, 18) as i32);
            // one subpath in three that follows a closed one continues after the Close without a MoveTo: it starts at the
            // closed subpath's starting point, and the dash pattern restarts there
            let cont = prev_closed_start.is_some() && r.chance(1, 3);
            if let (true, Some(p)) = (cont, prev_closed_start) {
                x = p.0;
                y = p.1;
            } else {
                ops.push(json!(["M", x, y]));
            }
            let (sx, sy) = (x, y);
            prev_closed_start = None;
            // one subpath in ten is a single point (possibly closed): it paints nothing and must not disturb its neighbours
            let nseg = if cont { r.range(1, 3) } else if r.chance(1, 10) { 0 } else { r.range(1, 3) };
            for _ in 0..nseg {
                let m = moves[r.range(0, 15) as usize];
                x += m.0;
                y += m.1;
                ops.push(json!(["L", x, y]));
            }
            if r.chance(1, 2) {
                let d2 = (x - sx) * (x - sx) + (y - sy) * (y - sy);
                match isq(d2) {
                    Some(_) => {
                        ops.push(json!(["Z"]));
                        prev_closed_start = Some((sx, sy));
                    }
                    None => ok = false,
                }
            }
        }
        if !ok {
            continue;
        }
        let na = r.range(1, 4);
        let dash: Vec<i32> = (0..na).map(|_| entries[r.range(0, 6) as usize]).collect();
        let off = r.range(0, 40) as i32 - 20;
        out.push(json!({"id": format!("drv-dashops-{}-{}", seed, out.len()), "fam": "stroke", "kind": "stroke", "render": false,
                         "want_dash_path": true, "w": 1, "h": 1, "den": 1, "k": 5, "ops": ops,
                         "style": {"width": 2, "cap": "Butt", "join": "Miter", "miter": [4, 1], "dash": dash, "dash_offset": off},
                         "ctm": {"m": [1, 0, 0, 1, 0, 0], "mden": 1}}));
    }
    out
}

/// one large quadratic per scenario whose second difference 2c - p0 - p2 sweeps all directions in n
/// equal steps (phase by seed), chord orientation varying independently: systematic coverage of
/// the direction-dependent case analysis in the rasteriser's curve set-up (subdivision count,
/// monotonic chopping) on curves long enough for it to matter.  64 x 64 surface, stride 3.
pub fn curve_sweep(seed: u64, n: usize) -> Vec<Value> {
    let mut out = Vec::new();
    let tau = std::f64::consts::PI * 2.0;
    let phase = (seed % 97) as f64 / 97.0;
    for k in 0..n {
        let th = tau * (k as f64 + phase) / n as f64;
        let phi = tau * ((k as f64 * 0.618_033_988_75 + seed as f64 * 0.37) % 1.0);
        let rad = if k % 2 == 0 { 56.0 } else { 36.0 };
        let (hx, hy) = (22.0 * phi.cos(), 22.0 * phi.sin());
        let (p0, p2) = ((32.0 - hx, 32.0 - hy), (32.0 + hx, 32.0 + hy));
        let c = (32.0 + rad * th.cos() / 2.0, 32.0 + rad * th.sin() / 2.0);
        let f = |v: f64| (v * 1000.0).round() / 1000.0;
        let ops = json!([["M", f(p0.0), f(p0.1)], ["Q", f(c.0), f(c.1), f(p2.0), f(p2.1)]]);
        out.push(json!({"id": format!("drv-curve-sweep-{}-{}", seed, k), "fam": "stroke", "kind": if k % 5 == 4 { "clip" } else { "fill" },
                         "w": 64, "h": 64, "den": 1, "ops": ops, "rule": "NonZero",
                         "ctm": {"m": [1.0, 0.0, 0.0, 1.0, 0.0, 0.0], "mden": 1}, "quantize": true, "stride": 3}));
    }
    out
}

/// full circles and long arcs with unrounded f32 centres / radii / angles under random rotations and scales: each one
/// puts dozens of quadratics through the monotonicity test and the unit divide of the path -> edge stage with values that
/// are within an ulp of the branch conditions far more often than hand-picked coordinates are.  Outcome-only scenarios.
pub fn arc_fuzz(seed: u64, n: usize) -> Vec<Value> {
    let mut r = Rng::new(seed ^ 0xA2CF);
    let mut out = Vec::new();
    for i in 0..n {
        let (cx, cy) = (r.frange(2.0, 14.0), r.frange(2.0, 14.0));
        let rad = r.frange(0.3, 9.0);
        // half of them start on an axis and are not rotated: the pieces of the arc then meet exactly at the circle's
        // top and bottom, where a piece's control point and end point are level up to rounding
        let axis = r.chance(1, 2);
        let a0 = if axis { (r.range(0, 3) as f64) * std::f64::consts::FRAC_PI_2 } else { r.frange(-7.0, 7.0) };
        let sw = if r.chance(1, 2) { 7.0 } else { r.frange(3.0, 6.4) } * if r.chance(1, 2) { 1.0 } else { -1.0 };
        let ang = if axis { (r.range(0, 3) as f64) * std::f64::consts::FRAC_PI_2 } else { r.frange(0.0, 6.283) };
        let sc = r.frange(0.4, 2.5);
        let (ca, sa) = (ang.cos() * sc, ang.sin() * sc);
        let m = if r.chance(1, 3) { vec![1.0, 0.0, 0.0, 1.0, 0.0, 0.0] } else { vec![ca, sa, -sa, ca, 8.0 - 8.0 * (ca - sa), 8.0 - 8.0 * (sa + ca)] };
        out.push(json!({"id": format!("drv-arc-fuzz-{}-{}", seed, i), "fam": "stroke", "kind": if r.chance(1, 6) { "clip" } else { "fill" },
                         "w": 16, "h": 16, "den": 1, "ops": [["A", cx, cy, rad, a0, sw]], "rule": "NonZero",
                         "ctm": {"m": m, "mden": 1}, "light": true}));
    }
    out
}
