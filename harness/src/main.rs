//! rqconf: conformance harness binding the TLA+ specification of raqote to the real library.
//!
//! `rqconf run <scenarios.ndjson> <trace.ndjson>` executes every scenario on the real library
//! and records one trace record per scenario.  Scenarios run in a child process under a
//! watchdog so that a hang or an abort is an outcome, not a crash of the harness.
//! `rqconf drive <family> <seed> <n> <out.ndjson>` writes seeded random scenarios.
//! `rqconf replay <scenario.json>` runs one scenario and prints its trace record.
mod util;
mod surface;
mod cov;
mod canvas;
mod pathfam;
mod views;
mod shade;
mod strokefam;
mod boundary;
mod selfcheck;
mod drivers;
mod curveedge;

use serde_json::{json, Value};
use std::io::{BufRead, BufReader, Write};
use std::process::{Command, Stdio};
use std::sync::mpsc;
use std::time::Duration;

pub fn run_scenario(sc: &Value) -> Value {
    let fam = sc["fam"].as_str().unwrap_or("");
    let r = std::panic::catch_unwind(|| match fam {
        "surface" => surface::run(sc),
        "cov" => cov::run(sc),
        "canvas" => canvas::run(sc),
        "routes" => canvas::run_routes(sc),
        "flatten" | "contains" | "builder" | "arc" => pathfam::run(sc),
        "views" => views::run(sc),
        "shade" => shade::run(sc),
        "stroke" => strokefam::run(sc),
        "curveedge" => curveedge::run(sc),
        "boundary" => boundary::run(sc),
        "selfcheck" => selfcheck::run(sc),
        _ => json!({"id": sc["id"], "outcome": "badfam"}),
    });
    match r {
        Ok(v) => v,
        // a panic that escaped a family's own per-call guard (harness bug or set-up panic)
        Err(e) => json!({"id": sc["id"], "fam": fam, "outcome": "panic", "where": "scenario", "msg": panic_msg(&e)}),
    }
}

pub fn panic_msg(e: &Box<dyn std::any::Any + Send>) -> String {
    if let Some(s) = e.downcast_ref::<&str>() {
        s.to_string()
    } else if let Some(s) = e.downcast_ref::<String>() {
        s.clone()
    } else {
        "?".to_string()
    }
}

fn read_scenarios(path: &str) -> Vec<Value> {
    let f = std::fs::File::open(path).expect("open scenarios");
    BufReader::new(f)
        .lines()
        .map(|l| l.unwrap())
        .filter(|l| !l.trim().is_empty())
        .map(|l| serde_json::from_str(&l).expect("scenario json"))
        .collect()
}

fn child(path: &str, start: usize) {
    std::panic::set_hook(Box::new(|_| {}));
    let scs = read_scenarios(path);
    let out = std::io::stdout();
    let mut out = out.lock();
    for (i, sc) in scs.iter().enumerate().skip(start) {
        let r = run_scenario(sc);
        writeln!(out, "{}\t{}", i, serde_json::to_string(&r).unwrap()).unwrap();
        out.flush().unwrap();
    }
}

fn parent(path: &str, outpath: &str, timeout_ms: u64) {
    let scs = read_scenarios(path);
    let n = scs.len();
    let mut out = std::io::BufWriter::new(std::fs::File::create(outpath).expect("create trace"));
    let exe = std::env::current_exe().unwrap();
    let mut next = 0usize;
    while next < n {
        let mut ch = Command::new(&exe)
            .args(&["child", path, &next.to_string()])
            .stdout(Stdio::piped())
            .stderr(Stdio::null())
            .spawn()
            .expect("spawn child");
        let stdout = ch.stdout.take().unwrap();
        let (tx, rx) = mpsc::channel::<String>();
        let th = std::thread::spawn(move || {
            let rd = BufReader::new(stdout);
            for l in rd.lines() {
                match l {
                    Ok(l) => {
                        if tx.send(l).is_err() {
                            break;
                        }
                    }
                    Err(_) => break,
                }
            }
        });
        loop {
            if next >= n {
                break;
            }
            match rx.recv_timeout(Duration::from_millis(timeout_ms)) {
                Ok(l) => {
                    let mut it = l.splitn(2, '\t');
                    let idx: usize = it.next().unwrap().parse().unwrap();
                    let body = it.next().unwrap();
                    assert_eq!(idx, next);
                    writeln!(out, "{}", body).unwrap();
                    next += 1;
                }
                Err(mpsc::RecvTimeoutError::Timeout) => {
                    // scenario `next` hangs
                    let _ = ch.kill();
                    let sc = &scs[next];
                    let r = json!({"id": sc["id"], "fam": sc["fam"], "outcome": "timeout", "targets": [], "w": sc.get("w").and_then(|x| x.as_i64()).unwrap_or(0),
                                   "h": sc.get("h").and_then(|x| x.as_i64()).unwrap_or(0), "den": sc.get("den").and_then(|x| x.as_i64()).unwrap_or(1)});
                    writeln!(out, "{}", serde_json::to_string(&r).unwrap()).unwrap();
                    next += 1;
                    break;
                }
                Err(mpsc::RecvTimeoutError::Disconnected) => {
                    // the child died (abort, stack overflow, OOM) while running scenario `next`
                    if next < n {
                        let sc = &scs[next];
                        let r = json!({"id": sc["id"], "fam": sc["fam"], "outcome": "abort", "targets": [], "w": sc.get("w").and_then(|x| x.as_i64()).unwrap_or(0),
                                   "h": sc.get("h").and_then(|x| x.as_i64()).unwrap_or(0), "den": sc.get("den").and_then(|x| x.as_i64()).unwrap_or(1)});
                        writeln!(out, "{}", serde_json::to_string(&r).unwrap()).unwrap();
                        next += 1;
                    }
                    break;
                }
            }
        }
        let _ = ch.kill();
        let _ = ch.wait();
        drop(rx);
        let _ = th.join();
    }
    out.flush().unwrap();
}

fn main() {
    let args: Vec<String> = std::env::args().collect();
    if args.len() < 2 {
        eprintln!("usage: rqconf run|drive|replay ...");
        std::process::exit(2);
    }
    match args[1].as_str() {
        "run" => {
            let t = std::env::var("RQ_TIMEOUT_MS").ok().and_then(|s| s.parse().ok()).unwrap_or(20000);
            parent(&args[2], &args[3], t);
        }
        "child" => child(&args[2], args[3].parse().unwrap()),
        "drive" => {
            let fam = &args[2];
            let seed: u64 = args[3].parse().unwrap();
            let n: usize = args[4].parse().unwrap();
            let mut out = std::io::BufWriter::new(std::fs::File::create(&args[5]).unwrap());
            let scs = match fam.as_str() {
                "surface" => surface::drive(seed, n),
                "cov" => cov::drive(seed, n),
                "curve-float" | "curve-big" | "stroke-float" => drivers::curve_float(fam, seed, n),
                "dashops" => drivers::dashops(seed, n),
                "arc-fuzz" => drivers::arc_fuzz(seed, n),
                "dash-nonpos" => {
                    // dashed strokes whose dash array has a total that is not positive: nothing may be painted
                    let ds = [json!([0]), json!([0, 0]), json!([3, -3]), json!([-2, 1]), json!([0, 0, 0]), json!([-4]), json!([1, -1, 2, -2])];
                    let mut v = drivers::stroke("dash", seed, n);
                    for (i, sc) in v.iter_mut().enumerate() {
                        sc["style"]["dash"] = ds[i % ds.len()].clone();
                        sc["id"] = json!(format!("drv-dash-nonpos-{}-{}", seed, i));
                    }
                    v
                }
                "stroke-nonpos" => {
                    // the stroke / dash scenarios with a width that must paint nothing
                    let ws = [json!(0), json!("-0"), json!(-1), json!(-7), json!("NaN"), json!("-Inf"), json!([-1, 3])];
                    let mut v = drivers::stroke(if seed % 2 == 0 { "stroke" } else { "dash" }, seed, n);
                    for (i, sc) in v.iter_mut().enumerate() {
                        sc["style"]["width"] = ws[i % ws.len()].clone();
                        sc["id"] = json!(format!("drv-stroke-nonpos-{}-{}", seed, i));
                    }
                    v
                }
                "curveedge-shift" => curveedge::drive(seed, n, 400, 100),
                "curveedge" => curveedge::drive(seed, n, 48, 20),
                "curve-sweep" => drivers::curve_sweep(seed, n),
                f if f.starts_with("canvas") => drivers::canvas(f, seed, n),
                "flatten" => drivers::curve("flatten", seed, n),
                "contains" | "builder" | "arc" => pathfam::drive(fam, seed, n),
                "views" => views::drive(seed, n),
                f if f.starts_with("shade") => drivers::shade(f, seed, n),
                f if f.starts_with("stroke") || f.starts_with("dash") => drivers::stroke(f, seed, n),
                f if f.starts_with("curve") => drivers::curve(f, seed, n),
                "boundary" => boundary::drive(seed, n),
                "selfcheck" => selfcheck::drive(seed, n),
                _ => panic!("unknown family"),
            };
            for s in scs {
                writeln!(out, "{}", serde_json::to_string(&s).unwrap()).unwrap();
            }
        }
        "replay" => {
            std::panic::set_hook(Box::new(|_| {}));
            let txt = std::fs::read_to_string(&args[2]).unwrap();
            let v: Value = serde_json::from_str(&txt).unwrap();
            let sc = if v.get("scenario").is_some() { v["scenario"].clone() } else { v };
            let r = run_scenario(&sc);
            println!("{}", serde_json::to_string_pretty(&r).unwrap());
        }
        _ => {
            eprintln!("unknown command");
            std::process::exit(2);
        }
    }
}
