//! C04 / C09 / C08: white-on-transparent renders of strokes, dashed strokes and curved fills,
//! recorded as alpha maps for the region specifications (Stroke.tla, Dash.tla, Curve.tla).
use crate::canvas::{parse_path, parse_style, parse_transform};
use crate::util::*;
use raqote::*;
use serde_json::{json, Value};

pub fn run(sc: &Value) -> Value {
    let w = int(&sc["w"]);
    let h = int(&sc["h"]);
    let den = den_of(sc, "den", 1.0);
    let ctm = if sc.get("ctm").is_some() { parse_transform(&sc["ctm"]) } else { Transform::identity() };
    let mut path = parse_path(&json!({"ops": sc["ops"]}), den);
    if sc["rule"].as_str() == Some("EvenOdd") {
        path.winding = Winding::EvenOdd;
    }
    // C16's consequence clause: the path is flattened first and the flattened path is drawn
    if let Some(t) = sc.get("flatten_tol") {
        let w = path.winding;
        path = path.flatten(num(t));
        path.winding = w;
    }
    let kind = sc["kind"].as_str().unwrap_or("stroke");
    let white = Source::Solid(SolidSource { r: 255, g: 255, b: 255, a: 255 });
    let mut dt = DrawTarget::new(w, h);
    let mut extra = serde_json::Map::new();
    let render = sc["render"].as_bool().unwrap_or(true);
    let want_edges = sc["want_edges"].as_bool().unwrap_or(false);
    let mut clip_edges = None;
    if want_edges {
        verif_edges::start();
    }
    let r = std::panic::catch_unwind(std::panic::AssertUnwindSafe(|| {
        dt.set_transform(&ctm);
        match kind {
            _ if !render => {}
            "stroke" => {
                let style = parse_style(&sc["style"], den);
                dt.stroke(&path, &white, &style, &DrawOptions::new());
            }
            "fill" => dt.fill(&path, &white, &DrawOptions::new()),
            "clip" => {
                dt.push_clip(&path);
                if want_edges {
                    clip_edges = Some(verif_edges::take());
                }
                dt.set_transform(&Transform::identity());
                dt.fill_rect(0., 0., w as f32, h as f32, &white, &DrawOptions::new());
                dt.pop_clip();
            }
            _ => panic!("bad kind"),
        }
    }));
    if want_edges {
        // the edges handed to the rasteriser (device space), in 1/1024 px
        let q = |v: f32| (v as f64 * 1024.0).round() as i64;
        let taken = verif_edges::take();
        let es: Vec<Value> = clip_edges.unwrap_or(taken)
            .iter()
            .map(|(a, b, c, k)| json!([q(a.x), q(a.y), q(b.x), q(b.y), if *c { 1 } else { 0 }, if *c { q(k.x) } else { 0 }, if *c { q(k.y) } else { 0 }]))
            .collect();
        extra.insert("edges".into(), Value::Array(es));
    }
    // the stroker's own output (stroke_to_path is public API): the closed pieces it emits, mapped
    // to device space, in 1/1024 px - bound to the pieces of Stroke.tla by Trace_StrokeOps
    if kind == "stroke" && sc["want_stroke_path"].as_bool().unwrap_or(false) {
        let style = parse_style(&sc["style"], den);
        let flat0 = path.flatten(0.1);
        let r = std::panic::catch_unwind(std::panic::AssertUnwindSafe(|| {
            let flat = if !style.dash_array.is_empty() { verif_dash_path(&flat0, &style.dash_array, style.dash_offset) } else { flat0.clone() };
            stroke_to_path(&flat, &style).transform(&ctm)
        }));
        if let Ok(sp) = r {
            let q = |v: f32| (v as f64 * 1024.0).round() as i64;
            let mut polys: Vec<Value> = Vec::new();
            let mut cur: Vec<Value> = Vec::new();
            let mut curved = false;
            let mut flush = |cur: &mut Vec<Value>, curved: &mut bool, polys: &mut Vec<Value>| {
                if !cur.is_empty() {
                    polys.push(json!({"pts": cur.clone(), "curved": *curved}));
                }
                cur.clear();
                *curved = false;
            };
            for op in &sp.ops {
                match *op {
                    PathOp::MoveTo(p) => {
                        flush(&mut cur, &mut curved, &mut polys);
                        cur.push(json!([q(p.x), q(p.y)]));
                    }
                    PathOp::LineTo(p) => cur.push(json!([q(p.x), q(p.y)])),
                    PathOp::QuadTo(c, p) => {
                        curved = true;
                        cur.push(json!([q(c.x), q(c.y)]));
                        cur.push(json!([q(p.x), q(p.y)]));
                    }
                    PathOp::CubicTo(c1, c2, p) => {
                        curved = true;
                        // the curve's own points at t = 1/4, 1/2, 3/4 (control points lie outside a round piece)
                        if let Some(a) = cur.last().cloned() {
                            let (ax, ay) = (a[0].as_i64().unwrap() as f64 / 1024.0, a[1].as_i64().unwrap() as f64 / 1024.0);
                            for t in [0.25f64, 0.5, 0.75] {
                                let u = 1.0 - t;
                                let x = u * u * u * ax + 3.0 * u * u * t * c1.x as f64 + 3.0 * u * t * t * c2.x as f64 + t * t * t * p.x as f64;
                                let y = u * u * u * ay + 3.0 * u * u * t * c1.y as f64 + 3.0 * u * t * t * c2.y as f64 + t * t * t * p.y as f64;
                                cur.push(json!([(x * 1024.0).round() as i64, (y * 1024.0).round() as i64]));
                            }
                        }
                        cur.push(json!([q(p.x), q(p.y)]));
                    }
                    PathOp::Close => flush(&mut cur, &mut curved, &mut polys),
                }
            }
            flush(&mut cur, &mut curved, &mut polys);
            extra.insert("stroke_polys".into(), Value::Array(polys));
        }
    }
    // diagnostics for the I-level dasher specification (not a verdict source)
    if kind == "stroke" && sc["style"].get("dash").is_some() && sc["want_dash_path"].as_bool().unwrap_or(false) {
        let style = parse_style(&sc["style"], den);
        let flat = path.flatten(0.1);
        if let Ok(d) = std::panic::catch_unwind(|| verif_dash_path(&flat, &style.dash_array, style.dash_offset)) {
            let (ops, exact) = crate::pathfam::ops_1024(&d);
            // a non-finite coordinate is written as the token "f": the specification must not compute with it
            let finite = !ops.to_string().contains("\"f\"");
            extra.insert("dash_ops".into(), ops);
            extra.insert("dash_finite".into(), json!(finite));
            extra.insert("dash_exact".into(), json!(exact));
        }
    }
    let mut out = sc.as_object().unwrap().clone();
    // abstraction function for non-lattice geometry (arbitrary control points, arcs, rotations):
    // the true outline, evaluated here in f64 and quantised to 1/1024 px, with a bound on the
    // distance between the quantised polyline and the true curve
    if sc["quantize"].as_bool().unwrap_or(false) {
        if kind == "stroke" {
            // the tube oracle needs a similarity: half width in device 1/1024 px
            let (subs, eps) = fine_stroke_subs(&sc["ops"], den as f64, &ctm);
            let scale = ((ctm.m11 * ctm.m22 - ctm.m12 * ctm.m21).abs() as f64).sqrt();
            let wd = num(&sc["style"]["width"]) as f64 / den_of(&sc["style"], "den", den) as f64;
            out.insert("fsubs".into(), subs);
            out.insert("feps".into(), json!(eps));
            out.insert("fhw".into(), json!((wd * scale * 512.0).floor() as i64));
            out.insert("fhw_slack".into(), json!(2));
            let mut st = sc["style"].clone();
            st["width"] = json!("f");
            out.insert("style".into(), st);
        } else {
            let (loops, eps) = fine_loops(&sc["ops"], den as f64, &ctm);
            out.insert("floops".into(), loops);
            out.insert("feps".into(), json!(eps));
        }
        // TLC's JSON reader must not see the float arguments
        out.insert("ops".into(), json!("f"));
        out.insert("ctm".into(), json!("f"));
    }
    if kind == "stroke" {
        // the sign class of the width as the library sees it (f32): the specification's rule for
        // non-positive and NaN widths needs nothing else
        let wd = parse_style(&sc["style"], den).width;
        out.insert("width_class".into(), json!(if wd.is_nan() { "nan" } else if wd > 0.0 { "pos" } else { "nonpos" }));
    }
    out.insert("outcome".into(), json!(if r.is_ok() { "ok" } else { "panic" }));
    if !sc["light"].as_bool().unwrap_or(false) {
        out.insert("pix".into(), pix(dt.get_data()));
    } else {
        // only the outcome matters; float arguments would be truncated by TLC's JSON reader
        out.insert("ops".into(), json!("f"));
        out.insert("ctm".into(), json!("f"));
        if out.contains_key("style") {
            out.insert("style".into(), json!("f"));
        }
    }
    for (k, v) in extra {
        out.insert(k, v);
    }
    Value::Object(out)
}

/// The harness's own evaluation of a path (independent of lyon and of raqote): the PathSem cursor
/// rules, curves sampled at 32 parameter steps, arcs on the exact circle; device points in
/// 1/1024 px.  Returns the fill loops and the deviation bound (in 1/1024 px).
pub fn fine_loops(ops: &Value, den: f64, ctm: &Transform) -> (Value, i64) {
    let (subs, eps) = fine_subs(ops, den, ctm, true);
    let js: Vec<Value> = subs.iter().map(|(l, _)| Value::Array(l.iter().map(|p| json!([p.0, p.1])).collect())).collect();
    (Value::Array(js), eps)
}

/// Stroke view of the same outline: every subpath with its closed flag (a closed subpath gets its
/// start appended), repeated points dropped, single points dropped.
pub fn fine_stroke_subs(ops: &Value, den: f64, ctm: &Transform) -> (Value, i64) {
    let (subs, eps) = fine_subs(ops, den, ctm, false);
    let mut js = Vec::new();
    for (l, closed) in subs {
        let mut pts = l.clone();
        if closed {
            pts.push(l[0]);
        }
        pts.dedup();
        if pts.len() >= 2 {
            js.push(json!({"pts": pts.iter().map(|p| json!([p.0, p.1])).collect::<Vec<_>>(), "closed": closed}));
        }
    }
    (Value::Array(js), eps)
}

fn fine_subs(ops: &Value, den: f64, ctm: &Transform, for_fill: bool) -> (Vec<(Vec<(i64, i64)>, bool)>, i64) {
    const N: usize = 32;
    let dev = |x: f64, y: f64| -> (f64, f64) {
        (x * ctm.m11 as f64 + y * ctm.m21 as f64 + ctm.m31 as f64, x * ctm.m12 as f64 + y * ctm.m22 as f64 + ctm.m32 as f64)
    };
    let mut loops: Vec<(Vec<(f64, f64)>, bool)> = Vec::new();
    let mut cur: Vec<(f64, f64)> = Vec::new();
    let mut curp: Option<(f64, f64)> = None; // user space
    let mut start: Option<(f64, f64)> = None;
    let mut eps: f64 = 0.0;
    let flush = |cur: &mut Vec<(f64, f64)>, loops: &mut Vec<(Vec<(f64, f64)>, bool)>, closed: bool| {
        if cur.len() >= 2 {
            loops.push((cur.clone(), closed));
        }
        cur.clear();
    };
    let g = |v: &Value| num(v) as f64;
    for op in ops.as_array().unwrap() {
        let k = op[0].as_str().unwrap();
        let c = |i: usize| g(&op[i]) / den;
        match k {
            "M" => {
                flush(&mut cur, &mut loops, false);
                let p = (c(1), c(2));
                cur.push(dev(p.0, p.1));
                curp = Some(p);
                start = Some(p);
            }
            "Z" => {
                flush(&mut cur, &mut loops, true);
                curp = start;
                if let Some(s) = start {
                    cur.push(dev(s.0, s.1));
                }
            }
            "L" => {
                let p = (c(1), c(2));
                if curp.is_none() {
                    start = Some(p);
                }
                if cur.is_empty() {
                    if let Some(cp) = curp {
                        cur.push(dev(cp.0, cp.1));
                    }
                }
                cur.push(dev(p.0, p.1));
                curp = Some(p);
            }
            "Q" | "C" => {
                let pts: Vec<(f64, f64)> = if k == "Q" { vec![(c(1), c(2)), (c(3), c(4))] } else { vec![(c(1), c(2)), (c(3), c(4)), (c(5), c(6))] };
                let p0 = curp.unwrap_or(pts[0]);
                if curp.is_none() {
                    start = Some(pts[0]);
                }
                if cur.is_empty() {
                    cur.push(dev(p0.0, p0.1));
                }
                // device-space control polygon (affine invariance)
                let mut ctl = vec![dev(p0.0, p0.1)];
                for q in &pts {
                    ctl.push(dev(q.0, q.1));
                }
                // deviation of an N-step polyline: |B''|max / (8 N^2)
                let dd = |a: (f64, f64), b: (f64, f64), cc: (f64, f64)| ((a.0 - 2.0 * b.0 + cc.0).powi(2) + (a.1 - 2.0 * b.1 + cc.1).powi(2)).sqrt();
                let b2 = if k == "Q" { 2.0 * dd(ctl[0], ctl[1], ctl[2]) } else { 6.0 * dd(ctl[0], ctl[1], ctl[2]).max(dd(ctl[1], ctl[2], ctl[3])) };
                eps = eps.max(b2 / (8.0 * (N * N) as f64));
                for i in 1..=N {
                    let t = i as f64 / N as f64;
                    let u = 1.0 - t;
                    let p = if k == "Q" {
                        (u * u * ctl[0].0 + 2.0 * u * t * ctl[1].0 + t * t * ctl[2].0, u * u * ctl[0].1 + 2.0 * u * t * ctl[1].1 + t * t * ctl[2].1)
                    } else {
                        (u * u * u * ctl[0].0 + 3.0 * u * u * t * ctl[1].0 + 3.0 * u * t * t * ctl[2].0 + t * t * t * ctl[3].0,
                         u * u * u * ctl[0].1 + 3.0 * u * u * t * ctl[1].1 + 3.0 * u * t * t * ctl[2].1 + t * t * t * ctl[3].1)
                    };
                    cur.push(p);
                }
                curp = Some(*pts.last().unwrap());
            }
            "A" => {
                // PathBuilder::arc(x, y, r, start, sweep): a line to the arc's start, then the arc
                let (x, y, r) = (c(1), c(2), c(3));
                let a0 = g(&op[4]);
                let sw = g(&op[5]).max(-2.0 * std::f64::consts::PI).min(2.0 * std::f64::consts::PI);
                let s0 = (x + r * a0.cos(), y + r * a0.sin());
                if curp.is_none() {
                    start = Some(s0);
                }
                if cur.is_empty() {
                    if let Some(cp) = curp {
                        cur.push(dev(cp.0, cp.1));
                    }
                }
                cur.push(dev(s0.0, s0.1));
                let steps = 96;
                for i in 1..=steps {
                    let a = a0 + sw * i as f64 / steps as f64;
                    cur.push(dev(x + r * a.cos(), y + r * a.sin()));
                }
                // chord deviation of the sampled circle plus the 0.5 % radial tolerance of the arc approximation
                let scale = ((ctm.m11 as f64).hypot(ctm.m12 as f64)).max((ctm.m21 as f64).hypot(ctm.m22 as f64));
                let da = sw.abs() / steps as f64;
                eps = eps.max(r * scale * (1.0 - (da / 2.0).cos()) + 0.005 * r * scale);
                let a1 = a0 + sw;
                curp = Some((x + r * a1.cos(), y + r * a1.sin()));
            }
            "R" => {
                flush(&mut cur, &mut loops, false);
                let (x, y, w, h) = (c(1), c(2), c(3), c(4));
                cur.push(dev(x, y));
                cur.push(dev(x + w, y));
                cur.push(dev(x + w, y + h));
                cur.push(dev(x, y + h));
                flush(&mut cur, &mut loops, true);
                curp = Some((x, y));
                start = Some((x, y));
                cur.push(dev(x, y));
            }
            _ => {}
        }
    }
    flush(&mut cur, &mut loops, false);
    let q = |v: f64| (v * 1024.0).round() as i64;
    // long straight pieces are subdivided (<= 3 px) so that the specification's 31-bit cross
    // products stay in range on large surfaces; the outline is unchanged
    let subdivide = |l: &Vec<(f64, f64)>, closed: bool| -> Vec<(f64, f64)> {
        let mut o = Vec::new();
        let n = l.len();
        let m = if closed { n } else { n - 1 };
        for i in 0..m {
            let a = l[i];
            let b = l[(i + 1) % n];
            o.push(a);
            let d = (b.0 - a.0).abs().max((b.1 - a.1).abs());
            let k = (d / 3.0).ceil() as usize;
            for j in 1..k {
                let t = j as f64 / k as f64;
                o.push((a.0 + (b.0 - a.0) * t, a.1 + (b.1 - a.1) * t));
            }
        }
        if !closed {
            o.push(l[n - 1]);
        }
        o
    };
    // fill loops are implicitly closed, stroke subpaths are handled by the caller (closed flag kept)
    (loops.iter().map(|(l, c)| (subdivide(l, for_fill).iter().map(|p| (q(p.0), q(p.1))).collect(), *c)).collect(), (eps * 1024.0).ceil() as i64 + 2)
}

pub fn drive(_fam: &str, _seed: u64, _n: usize) -> Vec<Value> {
    Vec::new()
}
