//! C04 / C09 / C08: white-on-transparent renders of strokes, dashed strokes and curved fills,
//! recorded as alpha maps for the region specifications (Stroke.tla, Dash.tla, Curve.tla).
use crate::canvas::{parse_path, parse_style, parse_transform};
use crate::util::*;
use raqote::*;
use serde_json::{json, Value};

pub fn run(sc: &Value) -> Value {
    let w = int(&sc["w"]);
    let h = int(&sc["h"]);
    let den = den_of(sc, "den", 1.0);
    let ctm = if sc.get("ctm").is_some() { parse_transform(&sc["ctm"]) } else { Transform::identity() };
    let mut path = parse_path(&json!({"ops": sc["ops"]}), den);
    if sc["rule"].as_str() == Some("EvenOdd") {
        path.winding = Winding::EvenOdd;
    }
    let kind = sc["kind"].as_str().unwrap_or("stroke");
    let white = Source::Solid(SolidSource { r: 255, g: 255, b: 255, a: 255 });
    let mut dt = DrawTarget::new(w, h);
    let mut extra = serde_json::Map::new();
    let r = std::panic::catch_unwind(std::panic::AssertUnwindSafe(|| {
        dt.set_transform(&ctm);
        match kind {
            "stroke" => {
                let style = parse_style(&sc["style"], den);
                dt.stroke(&path, &white, &style, &DrawOptions::new());
            }
            "fill" => dt.fill(&path, &white, &DrawOptions::new()),
            "clip" => {
                dt.push_clip(&path);
                dt.set_transform(&Transform::identity());
                dt.fill_rect(0., 0., w as f32, h as f32, &white, &DrawOptions::new());
                dt.pop_clip();
            }
            _ => panic!("bad kind"),
        }
    }));
    // diagnostics for the I-level dasher specification (not a verdict source)
    if kind == "stroke" && sc["style"].get("dash").is_some() && sc["want_dash_path"].as_bool().unwrap_or(false) {
        let style = parse_style(&sc["style"], den);
        let flat = path.flatten(0.1);
        if let Ok(d) = std::panic::catch_unwind(|| verif_dash_path(&flat, &style.dash_array, style.dash_offset)) {
            let (ops, exact) = crate::pathfam::ops_1024(&d);
            extra.insert("dash_ops".into(), ops);
            extra.insert("dash_exact".into(), json!(exact));
        }
    }
    let mut out = sc.as_object().unwrap().clone();
    out.insert("outcome".into(), json!(if r.is_ok() { "ok" } else { "panic" }));
    out.insert("pix".into(), pix(dt.get_data()));
    for (k, v) in extra {
        out.insert(k, v);
    }
    Value::Object(out)
}

pub fn drive(_fam: &str, _seed: u64, _n: usize) -> Vec<Value> {
    Vec::new()
}
