//! C07: call sequences with boundary values.  Every call runs under catch_unwind; a hang is
//! caught by the parent's watchdog (the whole scenario is then recorded as a time-out).
use crate::canvas::{annot, apply_call, parse_path};
use crate::util::*;
use raqote::*;
use serde_json::{json, Value};

pub fn run(sc: &Value) -> Value {
    let w = int(&sc["w"]);
    let h = int(&sc["h"]);
    let den = den_of(sc, "den", 1.0);
    let mut outcomes: Vec<Value> = Vec::new();
    let mut calls_echo: Vec<Value> = Vec::new();
    let created = std::panic::catch_unwind(|| DrawTarget::new(w, h));
    let mut dt = match created {
        Ok(dt) => dt,
        Err(e) => {
            return json!({"id": sc["id"], "fam": "boundary", "w": w, "h": h, "outcome": "panic", "calls": [],
                          "outcomes": [{"op": "new", "outcome": "panic", "msg": crate::panic_msg(&e)}]})
        }
    };
    let mut clip_depth = 0i32;
    let mut layer_depth = 0i32;
    let mut overall = "ok";
    for c in sc["calls"].as_array().unwrap() {
        let op = c["op"].as_str().unwrap();
        // pops must match pushes (outside the domain otherwise)
        if (op == "pop_clip" && clip_depth == 0) || (op == "pop_layer" && layer_depth == 0) {
            continue;
        }
        let r = std::panic::catch_unwind(std::panic::AssertUnwindSafe(|| match op {
            // path-level calls that are not DrawTarget methods
            "contains" => {
                let p = parse_path(&c["path"], den);
                let _ = p.contains_point(num(&c["tol"]), num(&c["x"]), num(&c["y"]));
            }
            "flatten" => {
                let p = parse_path(&c["path"], den);
                let _ = p.flatten(num(&c["tol"]));
            }
            _ => apply_call(&mut dt, c, den),
        }));
        calls_echo.push(annot(c));
        match r {
            Ok(_) => {
                outcomes.push(json!({"op": op, "outcome": "ok"}));
                match op {
                    "push_clip_rect" | "push_clip" => clip_depth += 1,
                    "pop_clip" => clip_depth -= 1,
                    "push_layer" => layer_depth += 1,
                    "pop_layer" => layer_depth -= 1,
                    _ => {}
                }
            }
            Err(e) => {
                outcomes.push(json!({"op": op, "outcome": "panic", "msg": crate::panic_msg(&e)}));
                overall = "panic";
                break; // the target may be left inconsistent by the unwinding
            }
        }
    }
    json!({"id": sc["id"], "fam": "boundary", "w": w, "h": h, "outcome": overall, "calls": calls_echo, "outcomes": outcomes})
}

pub fn drive(_seed: u64, _n: usize) -> Vec<Value> {
    Vec::new()
}
