-------------------------------- MODULE Env --------------------------------
(* TLC-only: model parameters from environment variables, so that one .cfg  *)
(* serves the quick and the thorough tier.                                  *)
EXTENDS IOUtils, Integers, Sequences
EnvInt(name, default) ==
  IF name \in DOMAIN IOEnv
  THEN LET s == IOEnv[name]
       IN IF Len(s) > 0 /\ SubSeq(s, 1, 1) = "-" THEN -atoi(SubSeq(s, 2, Len(s))) ELSE atoi(s)
  ELSE default
EnvStr(name, default) == IF name \in DOMAIN IOEnv THEN IOEnv[name] ELSE default
=============================================================================
