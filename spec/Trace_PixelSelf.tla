-------------------------- MODULE Trace_PixelSelf --------------------------
(* Self-check of Pixel.tla against sw-composite's own functions.  A record  *)
(* that differs ("DIFF") means the transcription is wrong: a tool error.    *)
(* "NP" records a premultiplied input pair whose blend result is not        *)
(* premultiplied or makes sw-composite panic (C18 / C07 material).          *)
EXTENDS Pixel, TLC, Json, IOUtils
Rec == ndJsonDeserialize(IOEnv.TRACE)
VARIABLE i
Init == i \in 1..Len(Rec)
Next == FALSE /\ UNCHANGED i
Same(obs, val) == ~obs.ok \/ (\A c \in 1..4 : obs.v[c] = val[c])
Check ==
  LET e == Rec[i]
      okb == ~BlendDefined(e.mode, e.s, e.d) \/ Same(e.blend, Blend(e.mode, e.s, e.d))
      oko == ~OverOK(e.s, e.d) \/ Same(e.over, Over(e.s, e.d))
      oki == ~OverWOK(e.s, e.d, Alpha256(e.cov)) \/ Same(e.over_in, OverIn(e.s, e.d, e.cov))
      okii == ~OverWOK(e.s, e.d, Alpha256(AlphaMul256(e.clip, Alpha256(e.cov)))) \/ Same(e.over_in_in, OverInIn(e.s, e.d, e.cov, e.clip))
      okl == Same(e.lerp, Lerp(e.s, e.d, e.t))
      okm == Same(e.alpha_mul, AlphaMul(e.s, e.t))
      okal == Same(e.alpha_lerp, Lerp(e.s, e.d, AlphaLerpW(e.cov, e.clip)))
      oks == e.muldiv255 = MulDiv255(e.cov, e.clip) /\ e.div255 = Div255(e.cov * e.clip)
  IN /\ (okb /\ oko /\ oki /\ okii /\ okl /\ okm /\ okal /\ oks)
          \/ PrintT(<<"DIFF", i, e.mode, e.s, e.d, <<okb, oko, oki, okii, okl, okm, okal, oks>>,
                      IF BlendDefined(e.mode, e.s, e.d) THEN Blend(e.mode, e.s, e.d) ELSE <<>>, e.blend>>)
     /\ (e.premul_in /\ (~e.blend.ok \/ ~Premul(e.blend.v))) => PrintT(<<"NP", i, e.mode, e.s, e.d, e.blend>>)
=============================================================================
