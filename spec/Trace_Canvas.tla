---------------------------- MODULE Trace_Canvas ----------------------------
(* Trace validation of the DrawTarget API machine.  Every record of the     *)
(* trace file is one scenario executed on the real library; it holds one    *)
(* event list per target (the main target and one shadow target per layer   *)
(* that was opened, see DESIGN.md C06).  Each (record, target) pair is      *)
(* validated as a behaviour of Canvas.tla: the specification carries ctm,   *)
(* clip stack and layer stack, takes the pixels from the observation, and   *)
(* evaluates the property predicates at every step.  Failures are printed   *)
(* as tagged tuples (one TLC run reports all of them):                      *)
(*   C02  pixel changed where MayChange is false                            *)
(*   C03  pixel value outside Allowed                                       *)
(*   C06L pixel of the visible surface changed while a layer was open       *)
(*   C06D clip/layer stack depths differ from the specification's           *)
(*   C11T get_transform differs from the last set_transform                 *)
(*   C02N a non-drawing call changed pixels                                 *)
(*   C07  a call panicked                                                   *)
(*   C10  fresh replay differs; C10I rasteriser not idle after the call     *)
(*   C18  premultiplied inputs gave a non-premultiplied pixel               *)
EXTENDS Canvas, TLC, Json, IOUtils
Rec == ndJsonDeserialize(IOEnv.TRACE)
VARIABLES r, t, l, st, n02, n03
vars == <<r, t, l, st, n02, n03>>

Tg(rr, tt) == Rec[rr].targets[tt]

RECURSIVE Setup(_, _, _, _, _)
Setup(s, calls, den, W, H) ==
  IF calls = <<>> THEN s
  ELSE LET c == Head(calls)
           s2 == ApplyCall(s, c, den, W, H, s.pix)
       IN Setup(IF c.op = "set_transform" THEN [s2 EXCEPT !.mb = c.mb] ELSE s2, Tail(calls), den, W, H)

Init == /\ r \in 1..Len(Rec)
        /\ t \in 1..Len(Rec[r].targets)
        /\ l = 0
        /\ st = Setup(InitState(Tg(r, t).init), Tg(r, t).setup, Rec[r].den, Rec[r].w, Rec[r].h)
        /\ n02 = 0 /\ n03 = 0

\* report, never block: TLC treats a disjunction inside an action as a choice,
\* so reports are conditionals
Rep(cond, msg) == IF cond THEN TRUE ELSE PrintT(msg)

PremulAll(px) == \A k \in 1..Len(px) : Premul(px[k])
InputsPremul(e) ==
  LET c == e.call IN
  /\ (Has(c, "src") /\ c.src.kind = "solid") => Premul(c.src.c)
  /\ (Has(c, "src") /\ c.src.kind = "image") => PremulAll(c.src.img.data)
  /\ Has(c, "img") => PremulAll(c.img.data)
  /\ Has(c, "color") => Premul(c.color)
  /\ Has(e, "layer_pix") => PremulAll(e.layer_pix)

Step ==
  /\ l < Len(Tg(r, t).events)
  /\ LET e0 == Tg(r, t).events[l + 1]
         c == e0.call
         W == Rec[r].w  H == Rec[r].h  den == Rec[r].den  N == W * H
         ok == e0.outcome = "ok"
         \* pixels that did not change are not repeated in the trace
         e == e0
         aft == IF Has(e0, "after") THEN e0.after ELSE st.pix
         s1 == ApplyCall(st, c, den, W, H, aft)
         s2 == IF c.op = "set_transform" THEN [s1 EXCEPT !.mb = c.mb] ELSE s1
         isdraw == c.op \in DrawOps
         surface == c.op \in {"copy_surface", "blend_surface", "blend_surface_with_alpha"}
         hidden == isdraw /\ Len(st.layers) > (IF c.op = "pop_layer" THEN 1 ELSE 0)
         visible == isdraw /\ ~hidden
         free == c.op = "mask" /\ (~st.lat \/ Singular(st.ctm))
         cov == IF visible THEN ShapeCovMap(c, st, den, W, H) ELSE <<>>
         ks == 1..N
         bad02 == IF visible /\ ok /\ ~free
                  THEN {k \in ks : ~MayChange(e, st, cov, W, H, k) /\ aft[k] # st.pix[k]} ELSE {}
         chk03 == IF visible /\ ok /\ ~free
                  THEN {k \in ks : /\ MayChange(e, st, cov, W, H, k)
                                   /\ AllowedDefined(e, st, den, W, H, k)
                                   /\ Transcribable(e, st, den, W, k)}
                  ELSE {}
         bad03 == {k \in chk03 : aft[k] \notin Allowed(e, st, cov, den, W, H, k)}
     IN
     /\ Rep(ok, <<"C07", r, t, e.ci, c.op>>)
     /\ Rep((~ok) \/ (isdraw \/ surface) \/ aft = st.pix, <<"C02N", r, t, e.ci, c.op>>)
     /\ Rep((~ok) \/ ~hidden \/ aft = st.pix, <<"C06L", r, t, e.ci, c.op>>)
     /\ Rep((~ok) \/ e.depths = <<Len(s2.clips), Len(s2.layers)>>, <<"C06D", r, t, e.ci, c.op, e.depths>>)
     /\ Rep((~ok) \/ e.mb = s2.mb, <<"C11T", r, t, e.ci, c.op>>)
     /\ Rep((~ok) \/ e.idle, <<"C10I", r, t, e.ci, c.op>>)
     /\ Rep(bad02 = {}, <<"C02", r, t, e.ci, c.op, bad02,
                          LET k == CHOOSE k \in bad02 : \A k2 \in bad02 : k <= k2
                          IN [k |-> k, before |-> st.pix[k], after |-> aft[k], cov |-> cov[k],
                              clip |-> ClipCovSet(st.clips, W, H, k), inrect |-> InClipRect(st.clips, W, H, k)]>>)
     /\ Rep(bad03 = {}, <<"C03", r, t, e.ci, c.op, bad03,
                          LET k == CHOOSE k \in bad03 : \A k2 \in bad03 : k <= k2
                          IN [k |-> k, before |-> st.pix[k], after |-> aft[k], cov |-> cov[k],
                              clip |-> ClipCovSet(st.clips, W, H, k), src |-> SourceSet(e, st, den, W, k),
                              mode |-> CallMode(c, st), allowed |-> Allowed(e, st, cov, den, W, H, k)]>>)
     /\ Rep((~ok) \/ ~Has(e, "fresh") \/ e.fresh = aft, <<"C10", r, t, e.ci, c.op>>)
     /\ Rep((~ok) \/ ~(isdraw \/ surface) \/ ~(PremulAll(st.pix) /\ InputsPremul(e)) \/ PremulAll(aft),
            <<"C18", r, t, e.ci, c.op>>)
     /\ Rep(~(visible /\ ok /\ chk03 = {} /\ ~free), <<"INC", r, t, e.ci, c.op>>)
     /\ n02' = n02 + (IF visible /\ ok /\ ~free THEN Cardinality({k \in ks : ~MayChange(e, st, cov, W, H, k)}) ELSE 0)
     /\ n03' = n03 + Cardinality(chk03)
     /\ Rep(l + 1 # Len(Tg(r, t).events), <<"SUM", r, t, n02', n03'>>)
     /\ st' = s2
  /\ l' = l + 1
  /\ UNCHANGED <<r, t>>
Next == Step
Spec == Init /\ [][Next]_vars
=============================================================================
