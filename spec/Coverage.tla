------------------------------ MODULE Coverage ------------------------------
(* C01: exact 4x4 supersampling coverage of a polygon (P level).            *)
(*                                                                          *)
(* All coordinates are integers in quarter pixels (q).  A polygon is a      *)
(* sequence of loops, each a sequence of points <<x, y>>, implicitly        *)
(* closed.  The surface is W x H pixels, i.e. the cells [c, c+1) x {y} for  *)
(* 0 <= c < 4W on the sample rows 0 <= y < 4H.                              *)
(*                                                                          *)
(* On sample row y an edge with y1 <= y < y2 (after ordering its end points *)
(* top to bottom) crosses at the rational x1 + (x2-x1)(y-y1)/(y2-y1).  The  *)
(* crossing is rounded to the nearest quarter pixel; where the property     *)
(* leaves the rounding open (an exact half, or -- for edges taller than     *)
(* TallEdge -- a crossing within the accumulated truncation of the 16.16    *)
(* slope of a half) both neighbours are accepted.  Cell c of row y is       *)
(* inside iff the winding number of the edges whose rounded crossing is     *)
(* <= c is inside under the rule.                                           *)
EXTENDS Geom

TallEdge == 88        \* q; below this only exact halves are two-valued

(* Directed edges <<x1, y1, x2, y2, w>> with y1 < y2, w = +1 if the path    *)
(* runs downwards along it, -1 otherwise.  Horizontal edges are dropped.    *)
EdgeOf(a, b) == IF a[2] < b[2] THEN <<a[1], a[2], b[1], b[2], 1>>
                ELSE <<b[1], b[2], a[1], a[2], -1>>
RECURSIVE LoopEdgeSeq(_, _)
LoopEdgeSeq(l, i) ==
  IF i > Len(l) THEN <<>>
  ELSE LET a == l[i]  b == l[IF i = Len(l) THEN 1 ELSE i + 1]
       IN (IF a[2] = b[2] THEN <<>> ELSE <<EdgeOf(a, b)>>) \o LoopEdgeSeq(l, i + 1)
RECURSIVE PolyEdges(_, _)
PolyEdges(ls, i) == IF i > Len(ls) THEN <<>> ELSE LoopEdgeSeq(ls[i], 1) \o PolyEdges(ls, i + 1)
Edges(ls) == PolyEdges(ls, 1)

Active(e, y) == e[2] <= y /\ y < e[4]

(* rounded crossing: <<lo, hi>>, lo = hi unless the rounding is open        *)
Crossing(e, y) ==
  LET dy  == e[4] - e[2]
      n   == y - e[2]
      num == e[1] * dy + (e[3] - e[1]) * n            \* crossing = num / dy
      hi  == RoundHalfUp(num, dy)
      \* distance of the crossing from the tie point hi - 1/2, as a multiple of
      \* 1/(2 dy): (2 num - (2 hi - 1) dy) >= 0
      d2  == 2 * num - (2 * hi - 1) * dy
      \* distance from the upper tie point hi + 1/2
      u2  == (2 * hi + 1) * dy - 2 * num
      \* tolerance n * 2^-14 q  <=>  d2 / (2 dy) <= n / 16384
      tol(x) == dy > TallEdge /\ x * 8192 <= n * dy
  IN IF d2 = 0 \/ tol(d2) THEN <<hi - 1, hi>>
     ELSE IF tol(u2) THEN <<hi, hi + 1>>
     ELSE <<hi, hi>>

(* all sums of sub-multisets of the sequence ws                              *)
RECURSIVE SubSums(_)
SubSums(ws) == IF ws = <<>> THEN {0}
               ELSE LET r == SubSums(Tail(ws)) IN r \cup {Head(ws) + x : x \in r}

(* For row y: the sequence of <<lo, hi, w>> of the active edges.             *)
RowCross(es, y) ==
  LET idx == {i \in 1..Len(es) : Active(es[i], y)}
  IN {<<Crossing(es[i], y)[1], Crossing(es[i], y)[2], es[i][5], i>> : i \in idx}

RECURSIVE SetSum(_)
SetSum(S) == IF S = {} THEN 0 ELSE LET x == CHOOSE x \in S : TRUE IN x[3] + SetSum(S \ {x})
RECURSIVE SetToSeqW(_)
SetToSeqW(S) == IF S = {} THEN <<>> ELSE LET x == CHOOSE x \in S : TRUE IN <<x[3]>> \o SetToSeqW(S \ {x})

(* Cell status on a row: "in" (certainly inside), "out", or "may".          *)
CellStatus(rc, rule, c) ==
  LET sure == {x \in rc : x[2] <= c}
      may  == {x \in rc : x[1] <= c /\ c < x[2]}
      base == SetSum(sure)
  IN IF may = {} THEN (IF InsideRule(rule, base) THEN "in" ELSE "out")
     ELSE LET ws == {base + s : s \in SubSums(SetToSeqW(may))}
          IN IF \A w \in ws : InsideRule(rule, w) THEN "in"
             ELSE IF \A w \in ws : ~InsideRule(rule, w) THEN "out" ELSE "may"

(* k range of pixel (px, py): number of inside cells among its 4 x 4 cells  *)
KRange(es, rule, px, py) ==
  LET st == [j \in 0..3 |-> LET rc == RowCross(es, 4 * py + j)
                            IN [i \in 0..3 |-> CellStatus(rc, rule, 4 * px + i)]]
      nIn  == Cardinality({<<i, j>> \in (0..3) \X (0..3) : st[j][i] = "in"})
      nMay == Cardinality({<<i, j>> \in (0..3) \X (0..3) : st[j][i] = "may"})
  IN <<nIn, nIn + nMay>>

AlphaOfK(k) == (IF k = 0 THEN {0} ELSE {16 * k - 1}) \cup {Min(16 * k, 255)}
AllowedAlphaAA(es, rule, px, py) ==
  LET kr == KRange(es, rule, px, py)
  IN UNION {AlphaOfK(k) : k \in kr[1]..kr[2]}

(* antialiasing off: pixel = 255 iff the last cell of the pixel on its      *)
(* first sample row is inside                                                *)
AllowedAlphaNoAA(es, rule, px, py) ==
  LET s == CellStatus(RowCross(es, 4 * py), rule, 4 * px + 3)
  IN IF s = "in" THEN {255} ELSE IF s = "out" THEN {0} ELSE {0, 255}

AllowedAlpha(es, rule, aa, px, py) ==
  IF aa THEN AllowedAlphaAA(es, rule, px, py) ELSE AllowedAlphaNoAA(es, rule, px, py)

(* the same for a whole surface, row-major, 1-based index k = py * W + px + 1 *)
AllowedMap(ls, rule, aa, W, H) ==
  LET es == Edges(ls)
  IN [k \in 1..(W * H) |-> AllowedAlpha(es, rule, aa, (k - 1) % W, (k - 1) \div W)]

(* possible coverage bytes (for C02/C03/C05: the shape or clip coverage)    *)
MayCover(ls, rule, aa, W, k) ==
  LET es == Edges(ls)
  IN AllowedAlpha(es, rule, aa, (k - 1) % W, (k - 1) \div W) # {0}
=============================================================================
