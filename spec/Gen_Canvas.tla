----------------------------- MODULE Gen_Canvas -----------------------------
(* Scenario generator for the DrawTarget API machine (C02, C03, C05, C06,   *)
(* C10, C11, C18): call histories built from menus defined here.  Set-up    *)
(* calls (transforms, clip pushes, layer pushes, pops) are explored         *)
(* exhaustively to depth D under breadth-first search or sampled under      *)
(* -simulate; after every set-up prefix NDRAW drawing calls are drawn from  *)
(* the product space shape x source x blend mode x alpha x antialiasing by  *)
(* a hash of the prefix, so that the whole product is covered across the    *)
(* run without multiplying the state space.  Histories are properly nested  *)
(* and are closed (layers and clips popped) before they are printed.        *)
EXTENDS Integers, Sequences, TLC, Json, Env
D      == EnvInt("D", 2)            \* maximal number of set-up calls
NDRAW  == EnvInt("NDRAW", 2)        \* drawing calls tried after each prefix
DRAWS  == EnvInt("DRAWS", 1)        \* maximal number of drawing calls per history
FOCUS  == EnvStr("FOCUS", "frame")  \* frame | clip | layer | history | xform
INITK  == EnvStr("INITK", "distinct")
SALT   == EnvInt("SALT", 0)
W == EnvInt("W", 5)
H == EnvInt("H", 5)

VARIABLES calls, stk, nd, hs
vars == <<calls, stk, nd, hs>>

Modes == <<"Dst", "Src", "Clear", "SrcOver", "DstOver", "SrcIn", "DstIn", "SrcOut", "DstOut", "SrcAtop",
           "DstAtop", "Xor", "Add", "Screen", "Overlay", "Darken", "Lighten", "ColorDodge", "ColorBurn",
           "HardLight", "SoftLight", "Difference", "Exclusion", "Multiply", "Hue", "Saturation", "Color",
           "Luminosity">>

(*------------------------------- menus -----------------------------------*)
T(m, d) == [op |-> "set_transform", m |-> m, mden |-> d]
Transforms ==
  << T(<<1, 0, 0, 1, 0, 0>>, 1),          \* identity
     T(<<4, 0, 0, 4, 1, 2>>, 4),          \* translate (1/4, 1/2)
     T(<<1, 0, 0, 1, 1, -1>>, 1),         \* integer translate
     T(<<2, 0, 0, 2, -1, 0>>, 1),         \* scale 2
     T(<<1, 0, 0, 1, 0, 0>>, 2),          \* scale 1/2
     T(<<0, 1, -1, 0, 5, 0>>, 1),         \* rotate 90 about the surface
     T(<<-1, 0, 0, 1, 5, 0>>, 1),         \* mirror
     T(<<1, 0, 1, 1, 0, 0>>, 1),          \* shear
     T(<<2, 0, 0, 1, 0, 1>>, 1),          \* non-uniform scale
     T(<<0, 0, 0, 0, 1, 1>>, 1),          \* singular: zero
     T(<<1, 2, 2, 4, 0, 0>>, 1),          \* singular: rank one
     T(<<2, 0, 0, 2, 0, 1>>, 2),          \* translate (0, 1/2): whole pixels in x only
     T(<<4, 0, 0, 4, 4, 5>>, 4),          \* translate (1, 5/4)
     T(<<2, 0, 0, 2, 3, 0>>, 2) >>        \* translate (3/2, 0): whole pixels in y only
ClipRects ==
  << <<1, 1, 4, 4>>, <<0, 2, 5, 5>>, <<2, 0, 3, 5>>, <<4, 4, 5, 5>>, <<0, 0, 5, 5>>,
     <<3, 3, 1, 1>>, <<-3, -3, 0, 0>>, <<6, 0, 9, 5>>, <<-2, 1, 3, 9>>, <<0, 0, 1, 3>>, <<2, 0, 3, 3>> >>
Path(ops) == [ops |-> ops]
PathEO(ops) == [ops |-> ops, winding |-> "EvenOdd"]
Tri      == Path(<< <<"M", 0, 0>>, <<"L", 20, 0>>, <<"L", 0, 20>>, <<"Z">> >>)
Quad     == Path(<< <<"M", 2, 3>>, <<"L", 18, 5>>, <<"L", 15, 17>>, <<"L", 3, 14>> >>)
OffRect  == Path(<< <<"R", 3, 3, 11, 7>> >>)
PixRect  == Path(<< <<"R", 4, 4, 12, 8>> >>)
OffSurf  == Path(<< <<"M", -20, -20>>, <<"L", -4, -20>>, <<"L", -4, -4>> >>)
Bowtie   == PathEO(<< <<"M", 1, 1>>, <<"L", 19, 17>>, <<"L", 19, 1>>, <<"L", 1, 17>>, <<"Z">>,
                      <<"M", 4, 6>>, <<"L", 16, 6>>, <<"L", 16, 14>>, <<"L", 4, 14>> >>)
Empty    == Path(<<>>)
\* starts with LineTo; after Close it goes on drawing from the subpath's start (10,2) and is implicitly closed again.
\* EvenOdd, two wedges hanging from the start point: on a row through both, the implicit closing edge is the second of
\* four crossings, so losing it would paint the gap between the wedges
LineFirst == PathEO(<< <<"L", 10, 2>>, <<"L", 18, 18>>, <<"L", 14, 18>>, <<"Z">>, <<"L", 2, 18>>, <<"L", 6, 18>> >>)
\* begins with Close (a no-op on a fresh path) and then a LineTo that is its start: nothing of an earlier path may leak in
Sliver   == Path(<< <<"Z">>, <<"L", 1, 9>>, <<"L", 19, 10>>, <<"L", 19, 11>> >>)
Tall     == Path(<< <<"M", 9, -40>>, <<"L", 12, 60>>, <<"L", 6, 60>> >>)
Shapes == <<Tri, Quad, OffRect, PixRect, OffSurf, Bowtie, LineFirst, Sliver, Tall, Empty>>
ClipPaths == <<Tri, Quad, Bowtie, OffSurf, Sliver>>

Solid(c) == [kind |-> "solid", c |-> c]
Img2 == [w |-> 2, h |-> 2, data |-> << <<255, 255, 0, 0>>, <<128, 0, 128, 0>>, <<255, 0, 0, 255>>, <<64, 32, 16, 8>> >>]
Img3 == [w |-> 3, h |-> 2, data |-> << <<255, 10, 20, 30>>, <<200, 200, 0, 100>>, <<0, 0, 0, 0>>,
                                        <<255, 255, 255, 255>>, <<90, 45, 90, 1>>, <<255, 0, 255, 0>> >>]
Sources ==
  << Solid(<<255, 255, 0, 0>>), Solid(<<128, 64, 0, 32>>), Solid(<<0, 0, 0, 0>>), Solid(<<255, 255, 255, 255>>),
     Solid(<<1, 1, 0, 1>>), Solid(<<200, 10, 200, 100>>),
     [kind |-> "image", img |-> Img2, extend |-> "Pad", filter |-> "Nearest", m |-> <<1, 0, 0, 1, -1, -1>>, mden |-> 1],
     [kind |-> "image", img |-> Img3, extend |-> "Repeat", filter |-> "Nearest", m |-> <<1, 0, 0, 1, 0, 0>>, mden |-> 2],
     [kind |-> "image", img |-> Img3, extend |-> "Pad", filter |-> "Bilinear", m |-> <<2, 0, 0, 2, 1, 0>>, mden |-> 4],
     [kind |-> "linear", stops |-> << << <<0, 1>>, <<255, 255, 0, 0>> >>, << <<1, 1>>, <<128, 0, 0, 255>> >> >>,
      start |-> <<0, 0>>, end |-> <<16, 0>>, spread |-> "Pad"],
     [kind |-> "radial", stops |-> << << <<0, 1>>, <<255, 0, 255, 0>> >>, << <<1, 2>>, <<0, 0, 0, 0>> >>, << <<1, 1>>, <<255, 0, 0, 255>> >> >>,
      center |-> <<10, 10>>, radius |-> 8, spread |-> "Repeat"],
     \* a degenerate (zero-length) gradient with translucent, strongly coloured stops: whatever it paints must be a valid colour
     [kind |-> "linear", stops |-> << << <<0, 1>>, <<64, 255, 0, 255>> >>, << <<1, 1>>, <<96, 255, 255, 255>> >> >>,
      start |-> <<8, 8>>, end |-> <<8, 8>>, spread |-> "Pad"] >>
Alphas == << <<1, 1>>, <<1, 2>>, <<0, 1>>, <<1, 1>>, <<200, 255>> >>
MaskData == <<0, 1, 2, 127, 128, 254, 255, 255, 16, 0, 255, 64>>
Opacities == << <<1, 1>>, <<1, 2>>, <<0, 1>>, <<1, 4>>, <<254, 255>> >>

(* the k-th drawing call of the product space; the parameters are independent mixed-radix *)
(* digits of k: kind (11), shape (10), source (12), mode (32), alpha (5), aa (5), extra (60) *)
DKind(k)  == k % 11
DShape(k) == (k \div 11) % 10
DSrc(k)   == (k \div 110) % 12
\* the mode digit has radix 32: the four extra values are SrcOver, by far the most used mode
DMode(k)  == (k \div 1320) % 32
DAlpha(k) == (k \div 42240) % 5
DAA(k)    == (k \div 211200) % 5
DX(k)     == (k \div 1056000) % 60
ModeOf(d) == IF d >= 28 THEN "SrcOver" ELSE Modes[d + 1]
Opts(k) == [blend |-> ModeOf(DMode(k)), alpha |-> Alphas[DAlpha(k) + 1], aa |-> DAA(k) # 0]
DrawCall(k0) ==
  LET k == k0 % 58080000
      kind == DKind(k)
      shape == Shapes[DShape(k) + 1]
      src == Sources[DSrc(k) + 1]
      x == DX(k)
  IN CASE kind \in {0, 1, 2, 3} -> [op |-> "fill", path |-> shape, src |-> src, opts |-> Opts(k)]
       [] kind = 4 -> [op |-> "fill_rect", r |-> << <<4, 4, 12, 8>>, <<-8, 8, 40, 4>>, <<3, 5, 9, 6>>, <<8, 8, -4, -4>> >>[(x % 4) + 1],
                       src |-> src, opts |-> Opts(k)]
       [] kind = 5 -> [op |-> "clear", color |-> << <<255, 0, 255, 0>>, <<0, 0, 0, 0>>, <<100, 100, 50, 0>> >>[(x % 3) + 1]]
       [] kind = 6 -> [op |-> "mask", x |-> <<0, 1, -1, 3>>[(x % 4) + 1], y |-> <<0, 2, 1, -2>>[((x \div 4) % 4) + 1],
                       mw |-> 4, mh |-> 3, data |-> MaskData, src |-> src]
       [] kind = 7 -> [op |-> "draw_image_at", x |-> <<0, 4, -4, 12, 2>>[(x % 5) + 1], y |-> <<0, 8, -4, 4, 3>>[((x \div 5) % 5) + 1],
                       img |-> IF x % 2 = 0 THEN Img2 ELSE Img3, opts |-> Opts(k)]
       [] kind = 8 -> [op |-> "draw_image_with_size_at", w |-> 12, h |-> 16, x |-> 4, y |-> 0, img |-> Img2, opts |-> Opts(k)]
       [] kind \in {9, 10} -> [op |-> "stroke", path |-> shape,
                       style |-> [width |-> <<4, 8, 0, 2>>[(x % 4) + 1], cap |-> <<"Butt", "Round", "Square">>[((x \div 4) % 3) + 1],
                                  join |-> <<"Miter", "Round", "Bevel">>[((x \div 12) % 3) + 1], miter |-> <<4, 1>>],
                       src |-> src, opts |-> Opts(k)]

SetupMenu ==
  CASE FOCUS = "clip" ->
         {[op |-> "push_clip_rect", r |-> ClipRects[i]] : i \in 1..Len(ClipRects)}
         \cup {[op |-> "push_clip", path |-> ClipPaths[i]] : i \in 1..Len(ClipPaths)}
         \cup {Transforms[2], Transforms[6]}
    [] FOCUS = "layer" ->
         {[op |-> "push_clip_rect", r |-> ClipRects[i]] : i \in {1, 4, 6, 10, 11}}
         \cup {[op |-> "push_clip", path |-> ClipPaths[i]] : i \in {1, 2}}
         \cup {[op |-> "push_layer", opacity |-> Opacities[i], blend |-> Modes[((i * 7 + j) % 28) + 1]] : i \in 1..5, j \in 0..1}
         \cup {Transforms[3]}
    [] FOCUS = "layerclip" ->      \* small menu explored to depth 3: clip rect (top > 0) x clip path x layer, any order
         {[op |-> "push_clip_rect", r |-> ClipRects[1]], [op |-> "push_clip_rect", r |-> ClipRects[2]],
          [op |-> "push_clip", path |-> ClipPaths[1]], [op |-> "push_clip", path |-> ClipPaths[2]],
          [op |-> "push_layer", opacity |-> Opacities[1], blend |-> "SrcOver"],
          [op |-> "push_layer", opacity |-> Opacities[2], blend |-> "Xor"]}
    [] FOCUS = "cross" ->          \* as layerclip; pops may cross (a clip pushed before a layer popped inside it and vice versa)
         {[op |-> "push_clip_rect", r |-> ClipRects[1]], [op |-> "push_clip_rect", r |-> ClipRects[2]],
          [op |-> "push_clip", path |-> ClipPaths[1]],
          [op |-> "push_layer", opacity |-> Opacities[1], blend |-> "SrcOver"],
          [op |-> "push_layer", opacity |-> Opacities[2], blend |-> "Xor"],
          [op |-> "push_layer", opacity |-> Opacities[1], blend |-> "Src"]}
    [] FOCUS = "xform" ->
         {Transforms[i] : i \in 1..Len(Transforms)}
         \cup {[op |-> "push_clip_rect", r |-> ClipRects[1]], [op |-> "push_layer", opacity |-> <<1, 2>>, blend |-> "SrcOver"],
               [op |-> "push_layer", opacity |-> <<0, 1>>, blend |-> "SrcOver"]}     \* (an invisible layer must leave T alone too)
    [] OTHER ->
         {[op |-> "push_clip_rect", r |-> ClipRects[i]] : i \in {1, 3, 5, 9}}
         \cup {[op |-> "push_clip", path |-> ClipPaths[i]] : i \in {1, 2}}
         \cup {[op |-> "push_layer", opacity |-> Opacities[2], blend |-> "SrcOver"],
               [op |-> "push_layer", opacity |-> Opacities[1], blend |-> "Src"],
               [op |-> "push_layer", opacity |-> Opacities[1], blend |-> "DstIn"]}
         \cup {Transforms[i] : i \in {2, 4, 6, 10}}

PushKind(c) == IF c.op \in {"push_clip_rect", "push_clip"} THEN "clip"
               ELSE IF c.op = "push_layer" THEN "layer" ELSE "none"
Hash(cs) == (Len(cs) * 131 + hs) % 1000003
RECURSIVE SumTup(_)
SumTup(s) == IF s = <<>> THEN 0 ELSE (Head(s) + 11) + 3 * SumTup(Tail(s))
CallHash(c) == CASE c.op = "set_transform" -> 1 + SumTup(c.m) + c.mden
                 [] c.op = "push_clip_rect" -> 2 + SumTup(c.r)
                 [] c.op = "push_clip" -> 3 + 17 * Len(c.path.ops) + Len(ToString(c.path.ops))
                 [] c.op = "push_layer" -> 4 + c.opacity[1] + 7 * c.opacity[2] + Len(c.blend)
                 [] OTHER -> 5
Init == calls = <<>> /\ stk = <<>> /\ nd = 0 /\ hs = SALT
NSetup == Len(calls) - nd
DoSetup == /\ NSetup < D
           /\ \E c \in SetupMenu :
                /\ calls' = Append(calls, c)
                /\ stk' = IF PushKind(c) = "none" THEN stk ELSE Append(stk, PushKind(c))
                /\ hs' = (hs * 31 + CallHash(c)) % 1000003
           /\ UNCHANGED nd
\* FOCUS = "cross": the clip stack and the layer stack are popped independently of each other
RemoveLast(s, kd) == LET i == CHOOSE j \in 1..Len(s) : s[j] = kd /\ \A m \in (j + 1)..Len(s) : s[m] # kd
                     IN SubSeq(s, 1, i - 1) \o SubSeq(s, i + 1, Len(s))
DoPopCross == /\ FOCUS = "cross" /\ NSetup < D
              /\ \E kd \in {"clip", "layer"} :
                   /\ \E j \in 1..Len(stk) : stk[j] = kd
                   /\ stk[Len(stk)] # kd                      \* (the nested pop is DoPop's)
                   /\ calls' = Append(calls, [op |-> IF kd = "clip" THEN "pop_clip" ELSE "pop_layer"])
                   /\ stk' = RemoveLast(stk, kd)
                   /\ hs' = (hs * 31 + (IF kd = "clip" THEN 6 ELSE 7)) % 1000003
              /\ UNCHANGED nd
DoPop == /\ NSetup < D /\ stk # <<>> /\ (nd >= 1 \/ FOCUS \in {"clip", "layer", "layerclip", "cross"})
         /\ calls' = Append(calls, [op |-> IF stk[Len(stk)] = "clip" THEN "pop_clip" ELSE "pop_layer"])
         /\ stk' = SubSeq(stk, 1, Len(stk) - 1)
         /\ hs' = (hs * 31 + 5) % 1000003
         /\ UNCHANGED nd
DoDraw == /\ nd < DRAWS
          /\ \E i \in 1..NDRAW :
               /\ calls' = Append(calls, DrawCall(Hash(calls) * 1013 + i * 15485863))
               /\ hs' = (hs * 31 + i) % 1000003
          /\ nd' = nd + 1
          /\ UNCHANGED stk
Next == DoSetup \/ DoPop \/ DoPopCross \/ DoDraw

RECURSIVE Closing(_)
Closing(s) == IF s = <<>> THEN <<>>
              ELSE <<[op |-> IF s[Len(s)] = "clip" THEN "pop_clip" ELSE "pop_layer"]>> \o Closing(SubSeq(s, 1, Len(s) - 1))
LastIsDraw == calls # <<>> /\ calls[Len(calls)].op \notin {"set_transform", "push_clip_rect", "push_clip", "pop_clip", "push_layer"}
Scenario == [id |-> ToString(<<"gc", FOCUS, hs, Len(calls)>>), fam |-> "canvas", w |-> W, h |-> H, den |-> 4,
             init |-> INITK, fresh |-> (FOCUS = "history"), calls |-> calls \o Closing(stk)]
\* under simulation only complete histories (all DRAWS drawing calls made) are printed
EMITFULL == EnvInt("EMITFULL", 0) = 1
Emit == (nd >= 1 /\ LastIsDraw /\ (EMITFULL => nd = DRAWS)) => PrintT(ToJson(Scenario))
=============================================================================
