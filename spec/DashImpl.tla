------------------------------ MODULE DashImpl ------------------------------
(* I level: the dasher of raqote (dash.rs dash_path) as a machine over       *)
(* arc-length positions.                                                     *)
(*                                                                           *)
(* A path is a sequence of subpaths [lens, closed, lc]: the integer lengths  *)
(* of its LineTo segments and, when closed, the length lc of the closing     *)
(* segment.  Points are identified by <<subpath index, arc-length position>>;*)
(* on a closed subpath position 0 and position L (the whole perimeter) are   *)
(* the same point.  One action per path op, structured like the code: the    *)
(* DashState (index, on, remaining_length), is_first_segment, first_dash and *)
(* the initial_segment buffer, the flush on MoveTo and at the end, and the   *)
(* Close branch.  FIXED selects the repaired Close branch (commit 8d51585).  *)
(* MC_Dash checks that the pieces this machine emits are the pieces          *)
(* Dash.tla's arc-length semantics prescribes.                               *)
EXTENDS Fixed, TLC

CONSTANTS FIXED,      \* Close emits the buffered outline when the whole subpath is in the first dash (8d51585)
          FIXED2,     \* the Close branch clears is_first_segment at a dash boundary like the LineTo branch
          FIXED3,     \* the offset loop advances when the offset lands exactly on a dash boundary (>=)
          FIXED4,     \* MoveTo flushes the buffered first dash before it starts the new subpath (a2b4637)
          FIXED5      \* Close re-arms is_first_segment / first_dash for a subpath continued by LineTo without MoveTo (88a1ad6)
VARIABLES path,        \* input subpaths
          A, off,      \* dash array (positive integers), offset
          sp,          \* index of the subpath being processed (0 before the first)
          k,           \* next op within the subpath: 0 = MoveTo, 1..n = LineTo, n+1 = Close / end
          pos,         \* arc-length position of cur_pt
          ds,          \* DashState [index, on, rem]
          isFirstSeg, firstDash,
          initSeg,     \* initial_segment: sequence of positions
          out,         \* emitted ops: <<"M", sp, s>>, <<"L", sp, s>>, <<"Z">>
          done
vars == <<path, A, off, sp, k, pos, ds, isFirstSeg, firstDash, initSeg, out, done>>

Total == LET t == SumSeq(A) IN IF Len(A) % 2 = 1 THEN 2 * t ELSE t
\* the initial dash state after skipping the offset (dash_offset % total, made non-negative)
RECURSIVE Skip(_, _)
Skip(s, o) == IF (IF FIXED3 THEN o >= s.rem ELSE o > s.rem)
              THEN Skip([index |-> s.index + 1, on |-> ~s.on, rem |-> A[((s.index + 1) % Len(A)) + 1]], o - s.rem)
              ELSE [s EXCEPT !.rem = @ - o]
Initial == Skip([index |-> 0, on |-> TRUE, rem |-> A[1]], off % Total)

\* one segment from position `from` of length len on subpath spi (the inner while loop and the
\* tail of the LineTo branch); returns the updated [ds, isFirstSeg, firstDash, initSeg, out]
RECURSIVE Chop(_, _, _, _, _)
Chop(r, spi, from, len, closing) ==
  IF len > r.ds.rem THEN
     LET seg == from + r.ds.rem
         r1 == IF r.ds.on
               THEN (IF r.isFirstSeg THEN [r EXCEPT !.initSeg = @ \o <<from, seg>>]
                     ELSE [r EXCEPT !.out = Append(@, <<"L", spi, seg>>)])
               ELSE [r EXCEPT !.firstDash = FALSE, !.out = Append(@, <<"M", spi, seg>>)]
         \* the LineTo branch clears is_first_segment here, the Close branch does not
         r2 == IF closing /\ ~FIXED2 THEN r1 ELSE [r1 EXCEPT !.isFirstSeg = FALSE]
         r3 == [r2 EXCEPT !.ds = [index |-> r.ds.index + 1, on |-> ~r.ds.on,
                                  rem |-> A[((r.ds.index + 1) % Len(A)) + 1]]]
     IN Chop(r3, spi, seg, len - r.ds.rem, closing)
  ELSE [r EXCEPT !.tailFrom = from, !.tailLen = len]

Rec == [ds |-> ds, isFirstSeg |-> isFirstSeg, firstDash |-> firstDash, initSeg |-> initSeg, out |-> out,
        tailFrom |-> 0, tailLen |-> 0]
\* flush a buffered initial segment: move_to(first), line_to(rest)
Flush(o, spi, seg) == IF seg = <<>> THEN o
                      ELSE o \o <<<<"M", spi, seg[1]>>>> \o [i \in 1..(Len(seg) - 1) |-> <<"L", spi, seg[i + 1]>>]

NSeg(s) == Len(path[s].lens)
PerimeterOf(s) == SumSeq(path[s].lens) + (IF path[s].closed THEN path[s].lc ELSE 0)

\* a subpath record may carry cont = TRUE: it is begun by a LineTo directly after the Close of the previous subpath
\* (no MoveTo op; it starts at that subpath's starting point)
IsCont(s) == "cont" \in DOMAIN path[s] /\ path[s].cont
DoMoveTo ==
  /\ ~done /\ sp < Len(path) /\ ~IsCont(sp + 1) /\ (IF sp = 0 THEN TRUE ELSE k > NSeg(sp) + (IF path[sp].closed THEN 1 ELSE 0))
  /\ sp' = sp + 1 /\ k' = 1 /\ pos' = 0
  \* repaired: the previous initial segment is flushed, then dashed.move_to(pt) starts the new subpath; the pinned code
  \* did it the other way round, so that a Close following directly (a subpath that is a single point) closed the
  \* polyline that had just been flushed
  /\ out' = IF FIXED4 THEN Append(Flush(out, sp, initSeg), <<"M", sp + 1, 0>>)
             ELSE Flush(Append(out, <<"M", sp + 1, 0>>), sp, initSeg)
  /\ isFirstSeg' = TRUE /\ initSeg' = <<>> /\ firstDash' = TRUE /\ ds' = Initial
  /\ UNCHANGED <<path, A, off, done>>

\* no op is consumed: the Close branch has already set cur_pt = start_point, emptied the buffer and restored the
\* dash state; the repaired code (FIXED5) has also re-armed the two flags there
DoContinue ==
  /\ ~done /\ sp >= 1 /\ sp < Len(path) /\ IsCont(sp + 1) /\ path[sp].closed /\ k > NSeg(sp) + 1
  /\ sp' = sp + 1 /\ k' = 1 /\ pos' = 0
  /\ isFirstSeg' = (IF FIXED5 THEN TRUE ELSE isFirstSeg) /\ firstDash' = (IF FIXED5 THEN TRUE ELSE firstDash)
  /\ UNCHANGED <<path, A, off, ds, initSeg, out, done>>

DoLineTo ==
  /\ ~done /\ sp >= 1 /\ k >= 1 /\ k <= NSeg(sp)
  /\ LET len == path[sp].lens[k]
         r == Chop(Rec, sp, pos, len, FALSE)
         endp == pos + len
         r2 == IF r.ds.on
               THEN (IF r.isFirstSeg THEN [r EXCEPT !.initSeg = @ \o <<r.tailFrom, endp>>]
                     ELSE [r EXCEPT !.out = Append(@, <<"L", sp, endp>>)])
               ELSE [r EXCEPT !.firstDash = FALSE, !.out = Append(@, <<"M", sp, endp>>)]
     IN /\ ds' = [r2.ds EXCEPT !.rem = @ - r.tailLen]
        /\ isFirstSeg' = r2.isFirstSeg /\ firstDash' = r2.firstDash /\ initSeg' = r2.initSeg /\ out' = r2.out
        /\ pos' = endp
  /\ k' = k + 1
  /\ UNCHANGED <<path, A, off, sp, done>>

DoClose ==
  /\ ~done /\ sp >= 1 /\ path[sp].closed /\ k = NSeg(sp) + 1
  /\ LET len == path[sp].lc
         L == PerimeterOf(sp)
         r == Chop(Rec, sp, pos, len, TRUE)
         o2 == IF r.ds.on
               THEN IF r.firstDash
                    THEN (IF FIXED /\ r.initSeg # <<>>
                          THEN Flush(r.out, sp, r.initSeg) \o <<<<"Z">>>>
                          ELSE Append(r.out, <<"Z">>))
                    ELSE IF r.initSeg # <<>>
                         THEN r.out \o [i \in 1..Len(r.initSeg) |-> <<"L", sp, r.initSeg[i]>>]
                         ELSE Append(r.out, <<"L", sp, L>>)
               ELSE Flush(r.out, sp, r.initSeg)
     IN /\ out' = o2 /\ isFirstSeg' = r.isFirstSeg /\ firstDash' = r.firstDash
  /\ initSeg' = <<>> /\ pos' = 0 /\ ds' = Initial
  /\ k' = k + 1
  /\ UNCHANGED <<path, A, off, sp, done>>

Finish ==
  /\ ~done /\ (IF sp = 0 THEN Len(path) = 0 ELSE sp = Len(path) /\ k > NSeg(sp) + (IF path[sp].closed THEN 1 ELSE 0))
  /\ out' = Flush(out, sp, initSeg)
  /\ done' = TRUE
  /\ UNCHANGED <<path, A, off, sp, k, pos, ds, isFirstSeg, firstDash, initSeg>>

Next == DoMoveTo \/ DoContinue \/ DoLineTo \/ DoClose \/ Finish

(*---------------- what the stroker makes of the emitted ops ----------------*)
\* subpaths of the output as the stroker sees them: [sp, pts (positions), closed]; zero-length
\* segments are ignored, single points produce nothing
RECURSIVE Pieces(_, _, _)
Pieces(ops, cur, acc) ==
  LET flush(c) == IF c.pts # <<>> THEN Append(acc, c) ELSE acc IN
  IF ops = <<>> THEN flush(cur)
  ELSE LET o == Head(ops) IN
       CASE o[1] = "M" -> Pieces(Tail(ops), [sp |-> o[2], pts |-> <<o[3]>>, closed |-> FALSE], flush(cur))
         [] o[1] = "L" -> Pieces(Tail(ops), IF cur.pts = <<>> THEN [sp |-> o[2], pts |-> <<o[3]>>, closed |-> FALSE]
                                            ELSE [cur EXCEPT !.pts = Append(@, o[3])], acc)
         [] o[1] = "Z" -> Pieces(Tail(ops), [sp |-> 0, pts |-> <<>>, closed |-> FALSE],
                                 IF cur.pts # <<>> THEN Append(acc, [cur EXCEPT !.closed = TRUE]) ELSE acc)
RECURSIVE DedupS(_)
DedupS(s) == IF Len(s) <= 1 THEN s ELSE IF s[1] = s[2] THEN DedupS(Tail(s)) ELSE <<s[1]>> \o DedupS(Tail(s))
\* normal form of a piece on subpath s: positions modulo the perimeter when the subpath is closed
Norm(pc) ==
  LET L == PerimeterOf(pc.sp)
      m(x) == IF path[pc.sp].closed /\ L > 0 THEN x % L ELSE x      \* (a single-point subpath has no perimeter)
      p == DedupS([i \in 1..Len(pc.pts) |-> m(pc.pts[i])])
      \* a closed piece that returns to its first point explicitly is the same outline
      q == IF pc.closed /\ Len(p) >= 2 /\ p[1] = p[Len(p)] THEN SubSeq(p, 1, Len(p) - 1) ELSE p
  IN [sp |-> pc.sp, pts |-> q, closed |-> pc.closed]
Visible(pc) == Len(pc.pts) >= 2
ImplPieces == LET ps == Pieces(out, [sp |-> 0, pts |-> <<>>, closed |-> FALSE], <<>>)
              IN {Norm(ps[i]) : i \in {j \in 1..Len(ps) : ps[j].sp >= 1 /\ Visible(Norm(ps[j]))}}

(*------------------- the arc-length semantics (P level) -------------------*)
\* as Dash.tla, in positions instead of coordinates
DoubledA == IF Len(A) % 2 = 1 THEN A \o A ELSE A
RECURSIVE CumA(_, _)
CumA(a, acc) == IF a = <<>> THEN <<>> ELSE <<acc + Head(a)>> \o CumA(Tail(a), acc + Head(a))
OnAtQ(q) == LET c == CumA(DoubledA, 0)
                idx == CHOOSE i \in 1..Len(c) : q < c[i] /\ (i = 1 \/ q >= c[i - 1])
            IN idx % 2 = 1
VertexPos(s) == LET l == path[s].lens
                    F[i \in 0..Len(l)] == IF i = 0 THEN 0 ELSE F[i - 1] + l[i]
                IN {F[i] : i \in 0..Len(l)}
SpecPieces(s) ==
  LET L == PerimeterOf(s)
      T == Total
      o == off % T
      c == CumA(DoubledA, 0)
      sw == {x \in 1..(L - 1) : \E i \in 1..Len(c) : (x + o) % T = c[i] % T}
      RECURSIVE Sorted(_)
      Sorted(S) == IF S = {} THEN <<>> ELSE LET mn == SetMin(S) IN <<mn>> \o Sorted(S \ {mn})
      b == Sorted({0, L} \cup sw)
      onI(j) == OnAtQ((b[j] + o) % T)
      closed == path[s].closed
      allOn == \A j \in 1..(Len(b) - 1) : onI(j)
      wrap == closed /\ ~allOn /\ Len(b) >= 3 /\ onI(1) /\ onI(Len(b) - 1)
      inner(x0, x1) == Sorted({v \in VertexPos(s) : x0 < v /\ v < x1})
      run(x0, x1) == <<x0>> \o inner(x0, x1) \o <<x1>>
      m(x) == IF closed THEN x % L ELSE x
      mk(seq, cl) == [sp |-> s, pts |-> DedupS([i \in 1..Len(seq) |-> m(seq[i])]), closed |-> cl]
      normal == {j \in 1..(Len(b) - 1) : onI(j) /\ ~(wrap /\ (j = 1 \/ j = Len(b) - 1))}
  IN IF L = 0 THEN {}
     ELSE IF allOn THEN
        (IF closed THEN {[sp |-> s, pts |-> LET r == run(0, L) IN DedupS([i \in 1..(Len(r) - 1) |-> m(r[i])]), closed |-> TRUE]}
         ELSE {mk(run(0, L), FALSE)})
     ELSE {mk(run(b[j], b[j + 1]), FALSE) : j \in normal}
          \cup (IF wrap THEN {mk(run(b[Len(b) - 1], L) \o Tail(run(0, b[2])), FALSE)} ELSE {})
AllSpecPieces == UNION {SpecPieces(s) : s \in 1..Len(path)}

\* a closed outline may start at any of its vertices and be traversed... the dasher keeps
\* the path's own order, so pieces are compared literally
Refines == done => ImplPieces = {p \in AllSpecPieces : Len(p.pts) >= 2}
=============================================================================
