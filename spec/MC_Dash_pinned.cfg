CONSTANT FIXED = FALSE
CONSTANT FIXED2 = FALSE
CONSTANT FIXED3 = FALSE
CONSTANT FIXED4 = FALSE
CONSTANT FIXED5 = TRUE
INIT Init
NEXT Next
INVARIANT Refines
CHECK_DEADLOCK FALSE
