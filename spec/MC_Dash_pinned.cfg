CONSTANT FIXED = FALSE
CONSTANT FIXED2 = FALSE
CONSTANT FIXED3 = FALSE
INIT Init
NEXT Next
INVARIANT Refines
CHECK_DEADLOCK FALSE
