CONSTANT FIXED = TRUE
CONSTANT FIXED2 = TRUE
CONSTANT FIXED3 = TRUE
CONSTANT FIXED4 = TRUE
CONSTANT FIXED5 = TRUE
INIT Init
NEXT Next
INVARIANT Refines
CHECK_DEADLOCK FALSE
