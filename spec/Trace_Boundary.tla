--------------------------- MODULE Trace_Boundary ---------------------------
(* Trace validation for C07: every call that Domain.tla places inside the    *)
(* property's domain must have returned normally (a hang shows up as a       *)
(* scenario whose outcome is "timeout", an abort as "abort").                *)
EXTENDS Domain, TLC, Json, IOUtils
Rec == ndJsonDeserialize(IOEnv.TRACE)
VARIABLE i
Init == i \in 1..Len(Rec)
Next == FALSE /\ UNCHANGED i
\* the transform in force before call k: the last lattice set_transform, or "not lattice"
CtmBefore(calls, k) ==
  LET S == {j \in 1..(k - 1) : calls[j].op = "set_transform"}
  IN IF S = {} THEN [t |-> Identity, lat |-> TRUE]
     ELSE LET j == SetMax(S) IN
          IF calls[j].lat /\ (\A q \in 1..6 : IsInt(calls[j].m[q])) THEN [t |-> CtmOf(calls[j]), lat |-> TRUE] ELSE [t |-> Identity, lat |-> FALSE]
Check ==
  LET e == Rec[i] IN
  IF e.outcome \in {"timeout", "abort"} THEN PrintT(<<"BAD", i, e.id, e.outcome, "?">>)
  ELSE LET n == Len(e.outcomes)
           bad == {k \in 1..n : e.outcomes[k].outcome # "ok" /\
                     (k > Len(e.calls) \/ LET cb == CtmBefore(e.calls, k) IN InDomain(e.calls[k], cb.t, cb.lat))}
           outdom == {k \in 1..Min(n, Len(e.calls)) : LET cb == CtmBefore(e.calls, k) IN ~InDomain(e.calls[k], cb.t, cb.lat)}
       IN IF bad # {} THEN PrintT(<<"BAD", i, e.id, "panic", LET k == SetMin(bad) IN <<k, e.outcomes[k].op, e.outcomes[k].msg>>>>)
          ELSE IF outdom # {} THEN PrintT(<<"OUT", i, outdom>>)
          ELSE PrintT(<<"NT", i>>)
=============================================================================
