CONSTANTS W = 2  H = 2
INIT Init
NEXT Next
INVARIANT SortedWhenScanned
INVARIANT NoMaskOverflow
INVARIANT IdleAfterReset
INVARIANT RefinesCoverage
CHECK_DEADLOCK FALSE
