INIT Init
NEXT Next
INVARIANT Endpoints
INVARIANT BlendBad
CHECK_DEADLOCK FALSE
