----------------------------- MODULE Trace_Curve -----------------------------
(* Trace validation for C08: pixels of a white-on-transparent fill (or of a  *)
(* full-surface fill through the path as clip) of a curved path: every pixel *)
(* that Curve.tla classifies "in" must be fully painted, every "out" pixel   *)
(* untouched.                                                                *)
EXTENDS Curve, TLC, Json, IOUtils
Rec == ndJsonDeserialize(IOEnv.TRACE)
VARIABLE i
Init == i \in 1..Len(Rec)
Next == FALSE /\ UNCHANGED i
White == <<255, 255, 255, 255>>
Zero == <<0, 0, 0, 0>>
Check ==
  LET e == Rec[i] IN
  IF e.outcome # "ok" THEN PrintT(<<"BAD", i, e.id, "panic">>)
  ELSE LET quant == "floops" \in DOMAIN e       \* outline supplied by the harness's abstraction function
           t == IF quant THEN [m |-> <<1, 0, 0, 1, 0, 0>>, mden |-> 1] ELSE [m |-> e.ctm.m, mden |-> e.ctm.mden]
           fl == IF quant THEN [loops |-> e.floops, eps |-> e.feps] ELSE FineLoops(e.ops, t, e.den)
           \* large surfaces: only the pixels of a sub-lattice are decided (the others stay unexamined)
           stride == IF "stride" \in DOMAIN e THEN e.stride ELSE 1
           PX == {k \in 1..(e.w * e.h) : ((k - 1) % e.w) % stride = 0 /\ ((k - 1) \div e.w) % stride = 0}
           cls == [k \in PX |-> ClassifyFill(fl, e.rule, (k - 1) % e.w, (k - 1) \div e.w)]
           badin == {k \in PX : cls[k] = "in" /\ e.pix[k] # White}
           badout == {k \in PX : cls[k] = "out" /\ e.pix[k] # Zero}
           nin == Cardinality({k \in PX : cls[k] = "in"})
       IN IF ~quant /\ ~DevExactFU(t, e.den) THEN PrintT(<<"SKIP", i, e.id>>)
          ELSE IF badin # {} \/ badout # {} THEN PrintT(<<"BAD", i, e.id, badin, badout>>)
          ELSE (nin = 0) \/ PrintT(<<"NT", i, nin>>)
=============================================================================
