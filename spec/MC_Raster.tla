------------------------------ MODULE MC_Raster ------------------------------
(* Design-level check for C01 / C07 / C10: the scan-line machine of          *)
(* Raster.tla refines the exact coverage model of Coverage.tla on every      *)
(* triangle of a small quarter-pixel grid (shifted partly or wholly off each *)
(* side of the surface), keeps its bucket indices in range, scans a sorted   *)
(* active list, never overflows a mask byte and is idle after reset.         *)
EXTENDS Raster, TLC, Env
N == EnvInt("N", 4)
Offsets == { <<0, 0>>, <<0, -3>>, <<-3, 1>>, <<6, 0>>, <<1, 6>>, <<0, -20>>, <<-20, 0>>, <<20, 2>>, <<2, 20>> }
Shifted(p, o) == << [i \in 1..Len(p) |-> <<p[i][1] + o[1], p[i][2] + o[2]>>] >>
Init == \E a \in (0..N) \X (0..N), b \in (0..N) \X (0..N), c \in (0..N) \X (0..N), o \in Offsets, r \in {"NonZero", "EvenOdd"} :
          InitWith(Shifted(<<a, b, c>>, o), r)
Spec == Init /\ [][Next]_vars
=============================================================================
