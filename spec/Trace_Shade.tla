----------------------------- MODULE Trace_Shade -----------------------------
(* Trace validation for C13 (images) and C12 (gradients): the recorded      *)
(* pixel of a Src full-coverage render must be a colour Shade.tla allows at *)
(* the image-space / gradient-space position of the pixel centre.           *)
EXTENDS Shade, TLC, Json, IOUtils
Rec == ndJsonDeserialize(IOEnv.TRACE)
VARIABLE i
Init == i \in 1..Len(Rec)
Next == FALSE /\ UNCHANGED i
Has(r, f) == f \in DOMAIN r
AffOf(c) == Aff(c.m, IF Has(c, "mden") THEN c.mden ELSE 1)
Zero == <<0, 0, 0, 0>>

(*--------------------------------- images --------------------------------*)
ImgMap(e) ==
  LET inv == AffInv(AffOf(e.ctm)) IN
  CASE e.via = "fill" -> AffThen(inv, AffOf(e.src))
    [] e.via = "draw_image_at" -> AffThen(inv, Aff(<<1, 0, 0, 1, -e.dest[1], -e.dest[2]>>, 1))
    [] e.via = "draw_image_with_size_at" ->
         \* translate(-x, -y) then scale(iw / w, ih / h); the generator keeps w / iw = h / ih = f
         LET f == e.dest[3] \div e.src.img.w
         IN AffThen(inv, AffThen(Aff(<<1, 0, 0, 1, -e.dest[1], -e.dest[2]>>, 1), Aff(<<1, 0, 0, 1, 0, 0>>, f)))
\* device box covered by draw_image* (CTM is an integer translation there)
DestBox(e) ==
  LET tx == e.ctm.m[5] \div e.ctm.mden  ty == e.ctm.m[6] \div e.ctm.mden
      bw == IF e.via = "draw_image_at" THEN e.src.img.w ELSE e.dest[3]
      bh == IF e.via = "draw_image_at" THEN e.src.img.h ELSE e.dest[4]
  IN <<e.dest[1] + tx, e.dest[2] + ty, e.dest[1] + tx + bw, e.dest[2] + ty + bh>>
ImageBad(e) ==
  LET ab == AlphaByte(e.alpha[1], e.alpha[2])
      ctm == AffOf(e.ctm)
  IN IF AffDet(ctm) = 0 THEN {k \in 1..(e.w * e.h) : e.pix[k] # Zero}
     ELSE LET M == ImgMap(e)
              ext == IF e.via = "fill" THEN e.src.extend ELSE "Pad"
              fil == IF e.via = "fill" THEN e.src.filter ELSE "Bilinear"
              box == IF e.via = "fill" THEN <<0, 0, e.w, e.h>> ELSE DestBox(e)
          IN {k \in 1..(e.w * e.h) :
                LET px == (k - 1) % e.w  py == (k - 1) \div e.w
                    inside == box[1] <= px /\ px < box[3] /\ box[2] <= py /\ py < box[4]
                IN IF ~inside THEN e.pix[k] # Zero
                   ELSE e.pix[k] \notin ImageColoursX(e.src.img, ext, fil, Centre16(M, px, py), ab, M.den <= 256)}

(*------------------------------- gradients -------------------------------*)
\* user-space position of the pixel centre as numerators over a common denominator
UserCentre(inv, px, py) ==
  <<(2 * px + 1) * inv.m[1] + (2 * py + 1) * inv.m[3] + 2 * inv.m[5],
    (2 * px + 1) * inv.m[2] + (2 * py + 1) * inv.m[4] + 2 * inv.m[6], 2 * inv.den>>
\* linear: t = (c - s) . (e - s) / |e - s|^2, in 1/65536, as <<floor, ceil>>
LinearT(e, u) ==
  LET s == e.src.start  f == e.src.end
      dx == f[1] - s[1]  dy == f[2] - s[2]
      l2 == dx * dx + dy * dy
      num == (u[1] - s[1] * u[3]) * dx + (u[2] - s[2] * u[3]) * dy      \* over u[3] * l2
  IN <<MulDivFloor(num, 65536, u[3] * l2), MulDivCeil(num, 65536, u[3] * l2)>>
\* radial: t = |c - centre| / radius
RadialT(e, u) ==
  LET c == e.src.center  r == e.src.radius
      dx == u[1] - c[1] * u[3]  dy == u[2] - c[2] * u[3]
      d2 == dx * dx + dy * dy                                         \* over u[3]^2
      S == 64
      lo == ISqrtFloor(d2 * S * S)  hi == ISqrtCeil(d2 * S * S)       \* |c - centre| * u[3] * S
  IN <<MulDivFloor(lo, 65536, S * u[3] * r), MulDivCeil(hi, 65536, S * u[3] * r)>>
TWindow == 772       \* 3/255 in 1/65536, rounded up
GradBad(e) ==
  LET ab == AlphaByte(e.alpha[1], e.alpha[2])
      ctm == AffOf(e.ctm)
  IN IF AffDet(ctm) = 0 THEN {k \in 1..(e.w * e.h) : e.pix[k] # Zero}
     ELSE LET inv == AffInv(ctm) IN
          {k \in 1..(e.w * e.h) :
             LET px == (k - 1) % e.w  py == (k - 1) \div e.w
                 u == UserCentre(inv, px, py)
                 given == e.src.kind \in {"sweep", "two_circle"}
                 t == IF e.src.kind = "linear" THEN LinearT(e, u)
                      ELSE IF e.src.kind = "radial" THEN RadialT(e, u) ELSE e.tmap[k]
                 \* two-circle and sweep: the window is widened by |t| / 255
                 wid == IF given THEN Max(Abs(t[1]), Abs(t[2])) \div 255 + 1 ELSE 0
                 lo == t[1] - TWindow - wid  hi == t[2] + TWindow + wid
                 \* Pad beyond the ends: the end colour itself (tolerance 1)
                 beyond == e.src.spread = "Pad" /\ (hi < 0 \/ lo > 65536)
                 tol == IF beyond THEN 1 ELSE 4
             IN (t[1] <= t[2]) /\ \E ch \in 1..4 :
                  LET w == GradWindow(e.src.stops, e.src.spread, lo, hi, ab, ch)
                  IN e.pix[k][ch] < w[1] - tol \/ e.pix[k][ch] > w[2] + tol}

Check ==
  LET e == Rec[i] IN
  IF e.outcome # "ok" THEN PrintT(<<"BAD", i, e.id, "panic">>)
  ELSE LET bad0 == IF e.src.kind = "image" THEN ImageBad(e) ELSE GradBad(e)
           \* drawn through a clip path: only pixels the clip covers fully are held to the source colour,
           \* pixels it does not cover at all must be empty, the edge pixels are not examined
           bad == IF Has(e, "clipcov")
                  THEN {k \in bad0 : e.clipcov[k] = 255} \cup {k \in 1..(e.w * e.h) : e.clipcov[k] = 0 /\ e.pix[k] # Zero}
                  ELSE bad0
       IN IF bad # {} THEN PrintT(<<"BAD", i, e.id, bad, LET k == CHOOSE k \in bad : TRUE IN <<k, e.pix[k]>>>>)
          ELSE IF ~e.ctm_after_same THEN PrintT(<<"BAD", i, e.id, "ctm">>)
          ELSE (\A k \in 1..(e.w * e.h) : e.pix[k] = Zero) \/ PrintT(<<"NT", i>>)
=============================================================================
