--------------------------- MODULE Trace_Contains ---------------------------
(* Trace validation for C17: every recorded answer of contains_point on a   *)
(* lattice polyline path must agree with Contains.tla.                      *)
EXTENDS Contains, TLC, Json, IOUtils
Rec == ndJsonDeserialize(IOEnv.TRACE)
VARIABLE i
Init == i \in 1..Len(Rec)
Next == FALSE /\ UNCHANGED i
Check ==
  LET e == Rec[i] IN
  IF e.outcome # "ok" THEN PrintT(<<"BAD", i, e.id, "panic">>)
  ELSE LET bad == {k \in 1..Len(e.queries) :
                     LET v == Verdict(e.ops, e.rule, e.queries[k])
                     IN (v = "in" /\ ~e.results[k]) \/ (v = "out" /\ e.results[k])}
           nin == Cardinality({k \in 1..Len(e.queries) : e.results[k]})
       IN IF bad # {} THEN PrintT(<<"BAD", i, e.id, {e.queries[k] : k \in bad}>>)
          ELSE (nin = 0 \/ nin = Len(e.queries)) \/ PrintT(<<"NT", i>>)
=============================================================================
