--------------------------- MODULE Trace_Contains ---------------------------
(* Trace validation for C17: every recorded answer of contains_point on a   *)
(* lattice polyline path must agree with Contains.tla.                      *)
EXTENDS Contains, TLC, Json, IOUtils
Rec == ndJsonDeserialize(IOEnv.TRACE)
VARIABLE i
Init == i \in 1..Len(Rec)
Next == FALSE /\ UNCHANGED i
Check ==
  LET e == Rec[i] IN
  IF e.outcome # "ok" THEN PrintT(<<"BAD", i, e.id, "panic">>)
  ELSE LET bad == {k \in 1..Len(e.queries) :
                     LET v == Verdict(e.ops, e.rule, e.queries[k])
                     IN (v = "in" /\ ~e.results[k]) \/ (v = "out" /\ e.results[k])}
           nin == Cardinality({k \in 1..Len(e.queries) : e.results[k]})
           \* agreement with what fill paints: a query point that is the centre of a fully painted
           \* pixel must be contained, the centre of an untouched pixel must not be (unless it lies on
           \* the outline, which has no area)
           Has(f) == f \in DOMAIN e
           PixOf(q) == LET dx == q[1] - e.gx  dy == q[2] - e.gy
                       IN IF dx % 2 = 1 /\ dy % 2 = 1 /\ dx \div 2 < e.fw /\ dy \div 2 < e.fh
                          THEN e.fill_alpha[(dy \div 2) * e.fw + (dx \div 2) + 1] ELSE -1
           disagree == IF Has("fill_alpha")
                       THEN {k \in 1..Len(e.queries) :
                               LET a == PixOf(e.queries[k]) IN
                               (a = 255 /\ ~e.results[k]) \/ (a = 0 /\ e.results[k] /\ ~OnLoops(FillLoops(e.ops), e.queries[k]))}
                       ELSE {}
       IN IF bad # {} THEN PrintT(<<"BAD", i, e.id, {e.queries[k] : k \in bad}>>)
          ELSE IF disagree # {} THEN PrintT(<<"BAD", i, e.id, "fill-disagrees", {e.queries[k] : k \in disagree}>>)
          ELSE (nin = 0 \/ nin = Len(e.queries)) \/ PrintT(<<"NT", i>>)
=============================================================================
