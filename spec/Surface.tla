------------------------------ MODULE Surface ------------------------------
(* C15: copy_surface / blend_surface / blend_surface_with_alpha.            *)
(* P level: block transfer.  I level: the index arithmetic of               *)
(* DrawTarget::composite_surface.                                           *)
EXTENDS Geom, Pixel

(*------------------------------- P level ---------------------------------*)
(* Source size (sw, sh), destination size (dw, dh), source rectangle r (a  *)
(* Box, any shape), destination point (dx, dy).  Destination pixel (X, Y)  *)
(* receives source pixel r.min + (X - dx, Y - dy) iff that offset lies in  *)
(* the rectangle and the source pixel lies in the source surface.          *)
SrcFor(sw, sh, r, dx, dy, X, Y) ==
  LET i == X - dx  j == Y - dy
  IN IF /\ 0 <= i /\ i < BoxW(r) /\ 0 <= j /\ j < BoxH(r)
        /\ 0 <= r.x0 + i /\ r.x0 + i < sw /\ 0 <= r.y0 + j /\ r.y0 + j < sh
     THEN <<r.x0 + i, r.y0 + j>> ELSE <<-1, -1>>

(* The P-level result as a map from destination index (row-major, 0-based) *)
(* to source index, or -1 where the destination pixel is untouched.        *)
PMap(sw, sh, dw, dh, r, dx, dy) ==
  [k \in 0..(dw * dh - 1) |->
     LET X == k % dw  Y == k \div dw
         s == SrcFor(sw, sh, r, dx, dy, X, Y)
     IN IF s[1] < 0 THEN -1 ELSE s[2] * sw + s[1]]

(* how a transferred pixel is combined                                      *)
Combine(kind, mode, alpha, s, d) ==
  CASE kind = "copy"  -> s
    [] kind = "blend" -> Blend(mode, s, d)
    [] kind = "alpha" -> OverIn(s, d, alpha)

(*------------------------------- I level ---------------------------------*)
(* composite_surface as written (fixed = FALSE: the pinned commit; fixed = *)
(* TRUE: translating by dst - src_rect.min).  Result: ok = FALSE (panic) or *)
(* a map m like PMap.  Slices src[a..b] / dst[a..b] panic when a > b, b > len or a < 0. *)
IMap(sw, sh, dw, dh, r, dx, dy, fixed) ==
  LET dstRect == SurfaceBox(dw, dh)
      clamped == BoxMeet(r, SurfaceBox(sw, sh))
      \* translation from source to destination coordinates
      ox == IF fixed THEN dx - r.x0 ELSE dx
      oy == IF fixed THEN dy - r.y0 ELSE dy
      sr == BoxShift(BoxMeet(dstRect, BoxShift(clamped, ox, oy)), -ox, -oy)
      \* first destination pixel
      cx == IF fixed THEN sr.x0 + ox ELSE Min(Max(dx, 0), dw)
      cy == IF fixed THEN sr.y0 + oy ELSE Min(Max(dy, 0), dh)
      width == BoxW(sr)
      rows == IF BoxEmpty(sr) THEN {} ELSE sr.y0..(sr.y1 - 1)
      DStart(y) == cx + (cy + y - sr.y0) * dw
      SStart(y) == sr.x0 + y * sw
      bad == \E y \in rows : \/ DStart(y) < 0 \/ DStart(y) + width > dw * dh
                             \/ SStart(y) < 0 \/ SStart(y) + width > sw * sh
  IN IF bad THEN [ok |-> FALSE, m |-> <<>>]
     ELSE [ok |-> TRUE, m |-> [k \in 0..(dw * dh - 1) |->
             IF \E y \in rows : DStart(y) <= k /\ k < DStart(y) + width
             THEN LET y == CHOOSE y \in rows : DStart(y) <= k /\ k < DStart(y) + width
                  IN SStart(y) + (k - DStart(y))
             ELSE -1]]
=============================================================================
