INIT Init
NEXT Next
INVARIANT NoPanic
INVARIANT Refines
CHECK_DEADLOCK FALSE
