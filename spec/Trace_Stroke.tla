----------------------------- MODULE Trace_Stroke -----------------------------
(* Trace validation for C04: every pixel of a white-on-transparent stroke    *)
(* that Stroke.tla classifies "in" must be fully painted and every "out"     *)
(* pixel untouched.                                                          *)
EXTENDS Stroke, Json, IOUtils
Rec == ndJsonDeserialize(IOEnv.TRACE)
VARIABLE i
Init == i \in 1..Len(Rec)
Next == FALSE /\ UNCHANGED i
Has(r, f) == f \in DOMAIN r
White == <<255, 255, 255, 255>>
Zero == <<0, 0, 0, 0>>
StyleOf(e) == [w |-> e.style.width, den |-> e.den, cap |-> e.style.cap, join |-> e.style.join,
               miter |-> e.style.miter, t |-> [m |-> e.ctm.m, mden |-> e.ctm.mden]]
Margin(e) == IF Has(e, "margin64") THEN e.margin64 ELSE 32
Check ==
  LET e == Rec[i] IN
  IF e.outcome # "ok" THEN PrintT(<<"BAD", i, e.id, "panic">>)
  \* a non-positive or NaN width paints nothing
  ELSE IF Has(e, "width_class") /\ e.width_class # "pos"
       THEN LET painted == {k \in 1..(e.w * e.h) : e.pix[k] # Zero}
            IN IF painted # {} THEN PrintT(<<"BAD", i, e.id, {}, painted>>) ELSE PrintT(<<"NT", i, 0, e.w * e.h>>)
  ELSE LET st == StyleOf(e)
           sps == Subpaths(e.ops)
           ok == \A k \in 1..Len(sps) : SubpathOK(sps[k])
           pcs == PreparedPieces(st, sps)
           cls == [k \in 1..(e.w * e.h) |-> Classify(pcs, (k - 1) % e.w, (k - 1) \div e.w, Margin(e))]
           badin == {k \in 1..(e.w * e.h) : cls[k] = "in" /\ e.pix[k] # White}
           badout == {k \in 1..(e.w * e.h) : cls[k] = "out" /\ e.pix[k] # Zero}
           nin == Cardinality({k \in 1..(e.w * e.h) : cls[k] = "in"})
           nout == Cardinality({k \in 1..(e.w * e.h) : cls[k] = "out"})
       IN IF ~ok THEN PrintT(<<"SKIP", i, e.id>>)
          ELSE IF badin # {} \/ badout # {} THEN PrintT(<<"BAD", i, e.id, badin, badout>>)
          ELSE (nin = 0 \/ nout = 0) \/ PrintT(<<"NT", i, nin, nout>>)
=============================================================================
