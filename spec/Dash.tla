-------------------------------- MODULE Dash --------------------------------
(* C09 (P level): the pieces of a dashed stroke.                            *)
(* Subpaths are polylines with integer segment lengths; positions along a   *)
(* subpath are arc lengths 0..L.  The dash array A (doubled when its length *)
(* is odd) has period T; position s is "on" iff (s + offset) mod T falls in *)
(* an even-indexed entry.  Each subpath restarts the pattern.  The pieces   *)
(* are the maximal on-intervals as open polylines that keep the interior    *)
(* vertices; on a closed subpath a piece reaching the end is joined to the  *)
(* piece starting at the beginning, and a pattern that is on over the whole *)
(* subpath gives the closed outline.                                        *)
EXTENDS Stroke

Doubled(A) == IF Len(A) % 2 = 1 THEN A \o A ELSE A
Period(A) == SumSeq(Doubled(A))
\* boundaries of the pattern within one period: b[0] = 0 < b[1] < ... (cumulative sums)
RECURSIVE Cum(_, _)
Cum(A, acc) == IF A = <<>> THEN <<>> ELSE <<acc + Head(A)>> \o Cum(Tail(A), acc + Head(A))
\* is pattern position q (0 <= q < T) inside an "on" entry?  entries are half-open [start, end)
OnAt(A, q) ==
  LET D == Doubled(A)  c == Cum(D, 0)
      idx == CHOOSE i \in 1..Len(D) : q < c[i] /\ (i = 1 \/ q >= c[i - 1])
  IN idx % 2 = 1
\* all switch positions s in (0, L) of the pattern shifted by off, and the on/off state just after s
Switches(A, off, L) ==
  LET D == Doubled(A)  T == Period(A)  c == Cum(D, 0)
      o == off % T
  IN {s \in 1..(L - 1) : \E i \in 1..Len(D) : (s + o) % T = c[i] % T}

(* arc-length bookkeeping of a subpath: points p (deduplicated), closed flag *)
RECURSIVE CumLen(_, _, _)
CumLen(p, i, acc) == IF i >= Len(p) THEN <<>>
                     ELSE <<acc + SegLen(p[i], p[i + 1])>> \o CumLen(p, i + 1, acc + SegLen(p[i], p[i + 1]))
\* the outline as an open list of points (closed subpaths get their start appended)
Outline(sp) == LET p0 == Dedup(sp.pts)
                   p == IF sp.closed /\ Len(p0) >= 2 /\ p0[1] = p0[Len(p0)] THEN SubSeq(p0, 1, Len(p0) - 1) ELSE p0
               IN IF sp.closed /\ Len(p) >= 2 THEN Append(p, p[1]) ELSE p
\* point at arc length s on outline q with cumulative lengths cl, in coordinates scaled by K
\* (K = a multiple of every segment length)
PointAt(q, cl, s, K) ==
  LET k == CHOOSE k \in 1..Len(cl) : s <= cl[k] /\ (k = 1 \/ s > cl[k - 1])
      base == IF k = 1 THEN 0 ELSE cl[k - 1]
      a == q[k]  b == q[k + 1]  len == cl[k] - base  t == s - base
  IN <<a[1] * K + ((b[1] - a[1]) * t * K) \div len, a[2] * K + ((b[2] - a[2]) * t * K) \div len>>
\* the polyline of outline q between arc lengths s0 < s1 (scaled by K), keeping interior vertices
Between(q, cl, s0, s1, K) ==
  LET inner == {k \in 1..(Len(cl) - 1) : s0 < cl[k] /\ cl[k] < s1}
      F[k \in 0..Len(cl)] == IF k = 0 THEN <<>>
                             ELSE F[k - 1] \o (IF k \in inner THEN << <<q[k + 1][1] * K, q[k + 1][2] * K>> >> ELSE <<>>)
  IN <<PointAt(q, cl, s0, K)>> \o F[Len(cl)] \o <<PointAt(q, cl, s1, K)>>

(* The dashed pieces of one subpath as stroke subpaths in coordinates        *)
(* scaled by K.                                                              *)
DashSubpath(sp, A, off, K) ==
  LET q == Outline(sp)
      cl == CumLen(q, 1, 0)
      L == IF cl = <<>> THEN 0 ELSE cl[Len(cl)]
      T == Period(A)
      o == off % T
      sw == Switches(A, off, L)
      \* boundaries 0 = x0 < x1 < ... < xm = L; interval j is on iff the pattern is on just after x_{j-1}
      xs == {0, L} \cup sw
      RECURSIVE Sorted(_)
      Sorted(S) == IF S = {} THEN <<>> ELSE LET m == SetMin(S) IN <<m>> \o Sorted(S \ {m})
      b == Sorted(xs)
      onI(j) == OnAt(A, (b[j] + o) % T)
      ivs == {j \in 1..(Len(b) - 1) : onI(j)}
      closed == sp.closed /\ Len(q) >= 3
      allOn == \A j \in 1..(Len(b) - 1) : onI(j)
      wrap == closed /\ ~allOn /\ Len(b) >= 3 /\ onI(1) /\ onI(Len(b) - 1)
      Scale(pts) == [i \in 1..Len(pts) |-> <<pts[i][1] * K, pts[i][2] * K>>]
      \* consecutive on-intervals cannot occur (switch points alternate) except where a zero-length
      \* entry makes two switches coincide; pieces are taken per on-interval
      piece(j) == [pts |-> Between(q, cl, b[j], b[j + 1], K), closed |-> FALSE]
      normal == {j \in ivs : ~(wrap /\ (j = 1 \/ j = Len(b) - 1))}
      RECURSIVE Pcs(_)
      Pcs(S) == IF S = {} THEN <<>> ELSE LET m == SetMin(S) IN <<piece(m)>> \o Pcs(S \ {m})
      \* the wrapped piece: last on-interval followed by the first one, through the start vertex
      wrapped == [pts |-> Between(q, cl, b[Len(b) - 1], L, K) \o Tail(Between(q, cl, 0, b[2], K)), closed |-> FALSE]
  IN IF L = 0 THEN <<>>
     ELSE IF allOn THEN <<[pts |-> Scale(IF closed THEN SubSeq(q, 1, Len(q) - 1) ELSE q), closed |-> closed]>>
     ELSE Pcs(normal) \o (IF wrap THEN <<wrapped>> ELSE <<>>)
\* cut points are exact only if K is a multiple of the denominator of every segment's unit direction
\* (5 for a 3-4-5 segment, 13 for 5-12-13, 1 for an axis-parallel one), the closing segment included
SegKOK(a, b, K) == LET l == SegLen(a, b)  g == GCD(GCD(Abs(b[1] - a[1]), Abs(b[2] - a[2])), l)
                   IN l = 0 \/ K % (l \div g) = 0
SubpathKOK(sp, K) == LET q == Outline(sp) IN \A j \in 1..(Len(q) - 1) : SegKOK(q[j], q[j + 1], K)
RECURSIVE DashAll(_, _, _, _, _)
DashAll(sps, i, A, off, K) == IF i > Len(sps) THEN <<>> ELSE DashSubpath(sps[i], A, off, K) \o DashAll(sps, i + 1, A, off, K)
\* no positive total: the stroke is disabled
DashedSubpaths(sps, A, off, K) == IF Period(A) <= 0 THEN <<>> ELSE DashAll(sps, 1, A, off, K)
=============================================================================
