--------------------------- MODULE Trace_CurveEdge ---------------------------
(* Binding of CurveEdge.tla: the shift and per-row x positions recorded from *)
(* the real code (hook verif_curve_edge) against Run(E).  "DRIFT": the code  *)
(* differs from the I-level transcription; "FAR": a recorded position is     *)
(* farther than TOL (1/64 px; 2 px - hairpin edges one pixel tall are legitimately up to ~1.4 px off) from the true curve.  Neither is a verdict   *)
(* on C08 by itself: the pipeline renders every such edge as a filled shape  *)
(* and Trace_Curve decides per pixel.                                        *)
EXTENDS CurveEdgeP, Json, IOUtils, Env
Rec == ndJsonDeserialize(IOEnv.TRACE)
TOL == EnvInt("TOL", 128)
VARIABLE i
Init == i \in 1..Len(Rec)
Next == FALSE /\ UNCHANGED i
EdgeOf(v) == [x1 |-> v[1], y1 |-> v[2], cx |-> v[3], cy |-> v[4], x2 |-> v[5], y2 |-> v[6]]
Check ==
  LET e == Rec[i]
      n == Len(e.edges)
      E(j) == EdgeOf(e.edges[j])
      ok(j) == Monotonic(E(j)) /\ E(j).y1 >= 0 /\ E(j).y1 < 4 * e.h
      full == e.mode = "full"
      run == [j \in 1..n |-> IF ~ok(j) THEN [ovf |-> TRUE, xs |-> <<>>, shift |-> 0]
                             ELSE IF full THEN Run(E(j))
                             ELSE [ovf |-> FALSE, xs |-> <<>>, shift |-> ClampShift(CurveSteps(E(j)))]]
      drift == {j \in 1..n : ok(j) /\ ~run[j].ovf /\ (e.res[j].shift # run[j].shift \/ e.res[j].xs # run[j].xs \/ e.res[j].y0 # E(j).y1)}
      far == {j \in 1..n : full /\ ok(j) /\ e.res[j].shift >= 0 /\ BadRows(E(j), e.res[j].xs, TOL, 4) # {}}
      novf == Cardinality({j \in 1..n : ~ok(j) \/ run[j].ovf})
  IN /\ (drift = {} \/ PrintT(<<"DRIFT", i, drift>>))
     /\ (far = {} \/ PrintT(<<"FAR", i, far>>))
     /\ (novf = 0 \/ PrintT(<<"OVF", i, novf>>))
=============================================================================
