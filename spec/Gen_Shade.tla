------------------------------ MODULE Gen_Shade ------------------------------
(* Scenario generator for C13 (KIND = "image") and C12 (KIND = "linear",     *)
(* "radial"): a source is rendered with Src over a whole small surface.       *)
(* The current transform and the source transform both range over a menu of  *)
(* dyadic affine maps, so the same image-space map is reached through the    *)
(* CTM, through the source transform and through both (fast paths and the    *)
(* general fixed-point sampler are exercised for equal maps).                *)
EXTENDS Integers, Sequences, TLC, Json, Env
KIND == EnvStr("KIND", "image")
SUB  == EnvInt("SUB", 1)           \* keep one scenario in SUB (by hash), 1 = all
SALT == EnvInt("SALT", 0)
VARIABLES a1, a2, a3, a4, a5, a6
vars == <<a1, a2, a3, a4, a5, a6>>
A(m, d) == [m |-> m, mden |-> d]
Affs == << A(<<1, 0, 0, 1, 0, 0>>, 1), A(<<1, 0, 0, 1, 2, -1>>, 1), A(<<4, 0, 0, 4, 1, 2>>, 4), A(<<2, 0, 0, 2, 1, 1>>, 2),
           A(<<2, 0, 0, 2, 0, 0>>, 1), A(<<1, 0, 0, 1, 0, 0>>, 2), A(<<2, 0, 0, 1, 0, 0>>, 1), A(<<0, 1, -1, 0, 6, 0>>, 1),
           A(<<-1, 0, 0, 1, 6, 0>>, 1), A(<<1, 0, 0, 1, 1, 0>>, 4), A(<<1, 0, 0, 1, -3, -7>>, 1), A(<<0, 0, 0, 0, 1, 1>>, 1) >>
NInv == Len(Affs) - 1       \* the last one is singular (CTM only)
P(a, r, g, b) == <<a, r, g, b>>
Imgs == << [w |-> 1, h |-> 1, data |-> <<P(200, 100, 50, 25)>>],
           [w |-> 2, h |-> 1, data |-> <<P(255, 255, 0, 0), P(128, 0, 128, 64)>>],
           [w |-> 2, h |-> 2, data |-> <<P(255, 255, 0, 0), P(128, 0, 128, 0), P(255, 0, 0, 255), P(64, 32, 16, 8)>>],
           [w |-> 3, h |-> 2, data |-> <<P(255, 10, 20, 30), P(200, 200, 0, 100), P(0, 0, 0, 0), P(255, 255, 255, 255), P(90, 45, 90, 1), P(255, 0, 255, 0)>>],
           [w |-> 3, h |-> 3, data |-> <<P(255, 0, 0, 0), P(255, 32, 64, 96), P(255, 64, 128, 192), P(192, 96, 0, 192), P(255, 128, 128, 128),
                                          P(160, 160, 32, 0), P(255, 192, 255, 64), P(96, 0, 96, 48), P(255, 255, 255, 255)>>] >>
Alphas == << <<1, 1>>, <<1, 2>>, <<0, 1>>, <<254, 255>> >>
Col(a, r, g, b) == <<a, r, g, b>>
StopLists ==
  << << << <<0, 1>>, Col(255, 255, 0, 0)>>, << <<1, 1>>, Col(255, 0, 0, 255)>> >>,
     << << <<1, 2>>, Col(255, 255, 255, 255)>> >>,
     << << <<0, 1>>, Col(255, 0, 255, 0)>>, << <<1, 2>>, Col(0, 0, 0, 0)>>, << <<1, 1>>, Col(255, 0, 0, 255)>> >>,
     << << <<1, 4>>, Col(255, 255, 0, 0)>>, << <<1, 4>>, Col(255, 0, 255, 0)>>, << <<3, 4>>, Col(128, 0, 0, 255)>> >>,
     << << <<0, 1>>, Col(0, 255, 255, 255)>>, << <<1, 1>>, Col(255, 255, 255, 255)>> >>,
     << << <<0, 1>>, Col(255, 10, 200, 30)>>, << <<1, 8>>, Col(255, 200, 10, 30)>>, << <<1, 2>>, Col(64, 0, 0, 0)>>,
        << <<7, 8>>, Col(255, 255, 255, 0)>>, << <<1, 1>>, Col(255, 0, 0, 128)>> >> >>
Spreads == <<"Pad", "Repeat", "Reflect">>
\* linear geometry: start, end (user units); radial: centre, radius
LinGeo == << <<<<0, 0>>, <<4, 0>>>>, <<<<1, 1>>, <<1, 5>>>>, <<<<6, 2>>, <<2, 2>>>>, <<<<0, 0>>, <<8, 8>>>>,
             <<<<1, 0>>, <<4, 4>>>>, <<<<2, 5>>, <<5, 1>>>>, <<<<0, 3>>, <<16, 3>>>> >>
RadGeo == << <<<<3, 3>>, 4>>, <<<<0, 0>>, 8>>, <<<<2, 4>>, 2>>, <<<<7, 1>>, 16>> >>
\* sweep: centre, start angle, end angle (degrees); two-circle: c1, r1, c2, r2 (first circle inside the second)
SweepGeo == << <<<<4, 4>>, 0, 360>>, <<<<3, 5>>, 90, 270>>, <<<<0, 0>>, 0, 90>>, <<<<4, 3>>, 300, 60>>, <<<<9, 9>>, 180, 200>> >>
TwoGeo == << <<<<4, 4>>, 1, <<4, 4>>, 6>>, <<<<3, 4>>, 1, <<4, 4>>, 5>>, <<<<4, 2>>, 2, <<4, 5>>, 8>>, <<<<5, 5>>, 0, <<4, 4>>, 3>> >>
Init == /\ a1 \in 1..Len(Affs)
        /\ a2 \in (IF KIND = "image" THEN 1..NInv ELSE 1..Len(Spreads))
        /\ a3 \in (IF KIND = "image" THEN 1..Len(Imgs) ELSE 1..Len(StopLists))
        /\ a4 \in (CASE KIND = "image" -> 0..3 [] KIND = "linear" -> 1..Len(LinGeo) [] KIND = "radial" -> 1..Len(RadGeo)
                       [] KIND = "sweep" -> 1..Len(SweepGeo) [] KIND = "two_circle" -> 1..Len(TwoGeo))
        /\ a5 \in 1..Len(Alphas)
        /\ a6 \in (IF KIND = "image" THEN 0..2 ELSE {0})
Next == FALSE /\ UNCHANGED vars
Hh == (a1 * 31 + a2 * 17 + a3 * 13 + a4 * 7 + a5 * 5 + a6 * 3 + SALT) % 1009
ImageScen ==
  LET img == Imgs[a3]
      ext == IF a4 % 2 = 0 THEN "Pad" ELSE "Repeat"
      fil == IF a4 \div 2 = 0 THEN "Nearest" ELSE "Bilinear"
      base == [id |-> ToString(<<"gs", KIND, a1, a2, a3, a4, a5, a6>>), fam |-> "shade", w |-> 6, h |-> 6, den |-> 1,
               ctm |-> Affs[a1], alpha |-> Alphas[a5]]
  IN CASE a6 = 0 -> base @@ [via |-> "fill", src |-> [kind |-> "image", img |-> img, extend |-> ext, filter |-> fil,
                                                        m |-> Affs[a2].m, mden |-> Affs[a2].mden]]
       [] a6 = 1 -> base @@ [via |-> "draw_image_at", src |-> [kind |-> "image", img |-> img],
                             dest |-> << <<0, 0>>, <<2, 1>>, <<-1, 3>>, <<5, 5>>, <<-4, 0>> >>[(a2 % 5) + 1]]
       [] a6 = 2 -> base @@ [via |-> "draw_image_with_size_at", src |-> [kind |-> "image", img |-> img],
                             dest |-> LET o == << <<0, 0>>, <<1, 2>>, <<-2, 1>> >>[(a2 % 3) + 1]
                                          f == <<2, 4, 1>>[(a4 % 3) + 1]
                                      IN <<o[1], o[2], img.w * f, img.h * f>>]
GradScen ==
  LET base == [id |-> ToString(<<"gs", KIND, a1, a2, a3, a4, a5>>), fam |-> "shade", w |-> 8, h |-> 8, den |-> 1,
               ctm |-> Affs[a1], alpha |-> Alphas[a5], via |-> "fill"]
  IN IF KIND = "linear"
     THEN base @@ [src |-> [kind |-> "linear", stops |-> StopLists[a3], start |-> LinGeo[a4][1], end |-> LinGeo[a4][2], spread |-> Spreads[a2]]]
     ELSE IF KIND = "radial"
     THEN base @@ [src |-> [kind |-> "radial", stops |-> StopLists[a3], center |-> RadGeo[a4][1], radius |-> RadGeo[a4][2], spread |-> Spreads[a2]]]
     ELSE IF KIND = "sweep"
     THEN base @@ [src |-> [kind |-> "sweep", stops |-> StopLists[a3], center |-> SweepGeo[a4][1], start_angle |-> SweepGeo[a4][2],
                            end_angle |-> SweepGeo[a4][3], spread |-> Spreads[a2]]]
     ELSE base @@ [src |-> [kind |-> "two_circle", stops |-> StopLists[a3], c1 |-> TwoGeo[a4][1], r1 |-> TwoGeo[a4][2],
                            c2 |-> TwoGeo[a4][3], r2 |-> TwoGeo[a4][4], spread |-> Spreads[a2]]]
Emit == (Hh % SUB = 0 /\ (KIND # "image" \/ a6 = 0 \/ a1 \in {1, 2, 11})) => PrintT(ToJson(IF KIND = "image" THEN ImageScen ELSE GradScen))
=============================================================================
