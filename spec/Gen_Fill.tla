------------------------------ MODULE Gen_Fill ------------------------------
(* Scenario generator for C01 (and the lattice polygons of other families): *)
(* builds polygons vertex by vertex on the quarter-pixel grid 0..N.  Under  *)
(* breadth-first search it enumerates every polygon with NL loops of        *)
(* MINV..NV vertices; under -simulate it samples them.  Each finished       *)
(* polygon is printed in NVAR variants (offset relative to the surface,     *)
(* surface size, winding rule, antialiasing, explicit/implicit close).      *)
EXTENDS Integers, Sequences, TLC, Json, Env
N    == EnvInt("N", 4)
NV   == EnvInt("NV", 3)
MINV == EnvInt("MINV", 3)
NL   == EnvInt("NL", 1)
NVAR == EnvInt("NVAR", 1)
VARIABLES loops, cur
vars == <<loops, cur>>
Init == loops = <<>> /\ cur = <<>>
Done == Len(loops) = NL
AddPoint == /\ ~Done /\ Len(cur) < NV
            /\ \E x \in 0..N, y \in 0..N : cur' = Append(cur, <<x, y>>)
            /\ UNCHANGED loops
CloseLoop == /\ ~Done /\ Len(cur) >= MINV
             /\ loops' = Append(loops, cur) /\ cur' = <<>>
Next == AddPoint \/ CloseLoop

RECURSIVE HashPts(_, _)
HashPts(s, k) == IF s = <<>> THEN 0 ELSE ((Head(s)[1] * 31 + Head(s)[2] * 17 + k * 7) + 3 * HashPts(Tail(s), k + 1)) % 100003
RECURSIVE HashLoops(_)
HashLoops(ls) == IF ls = <<>> THEN 5 ELSE (HashPts(Head(ls), 1) + 13 * HashLoops(Tail(ls))) % 100003
H == HashLoops(loops)

\* offsets in q: inside, partly/wholly above, left, right, below
Offsets == <<<<0, 0>>, <<0, -2>>, <<0, -4 * 6>>, <<-3, 0>>, <<-4 * 6, 1>>, <<5, 0>>, <<4 * 6, 0>>,
             <<0, 6>>, <<1, 4 * 6>>, <<-2, -3>>, <<2, 1>>, <<1, 2>>>>
Sizes   == <<<<2, 2>>, <<1, 1>>, <<3, 2>>, <<2, 3>>, <<1, 3>>, <<3, 1>>, <<3, 3>>>>
Shift(ls, o) == [i \in 1..Len(ls) |-> [j \in 1..Len(ls[i]) |-> <<ls[i][j][1] + o[1], ls[i][j][2] + o[2]>>]]
Variant(j) ==
  LET h == H + 7919 * j
      o == Offsets[(h % Len(Offsets)) + 1]
      s == Sizes[((h \div 12) % Len(Sizes)) + 1]
  IN [id |-> ToString(<<"gf", loops, j>>), fam |-> "cov", w |-> s[1], h |-> s[2],
      loops |-> Shift(loops, o),
      closed |-> [i \in 1..Len(loops) |-> ((h \div 7) + i) % 2 = 0],
      rule |-> IF (h \div 3) % 2 = 0 THEN "NonZero" ELSE "EvenOdd",
      aa |-> (h \div 5) % 4 # 0,
      route |-> IF (h \div 11) % 9 = 0 THEN "clip" ELSE "fill"]
(* the same polygons as path ops (families contains / flatten-structure): coordinates are  *)
(* doubled (den = 2) so that query points can fall on half-integers; variants add an       *)
(* explicit Close and a drawing op after it.                                               *)
FAM == EnvStr("FAM", "cov")
RECURSIVE LoopOps(_, _)
LoopOps(l, k) == IF k > Len(l) THEN <<>>
                 ELSE << <<IF k = 1 THEN "M" ELSE "L", 2 * l[k][1], 2 * l[k][2]>> >> \o LoopOps(l, k + 1)
RECURSIVE AllOps(_, _, _)
AllOps(ls, i, h) ==
  IF i > Len(ls) THEN <<>>
  ELSE LET closed == ((h \div 7) + i) % 2 = 0
           extra == closed /\ ((h \div 5) + i) % 3 = 0
           body == IF (h \div 11) % 7 = 0 /\ i = 1 THEN Tail(LoopOps(ls[i], 1)) ELSE LoopOps(ls[i], 1)
       IN body \o (IF closed THEN << <<"Z">> >> ELSE <<>>)
               \o (IF extra THEN << <<"L", 2 * ls[i][2][1] + 1, 2 * ls[i][1][2] + 1>> >> ELSE <<>>)
               \* (a single LineTo after Close encloses nothing: every other continuation has a second vertex, so
               \* that the subpath continued from the closed subpath's start has an interior)
               \o (IF extra /\ ((h \div 13) + i) % 2 = 0 THEN << <<"L", 2 * ls[i][1][1] + 1, 2 * ls[i][2][2] + 3>> >> ELSE <<>>)
               \o AllOps(ls, i + 1, h)
VariantPath(j) ==
  LET h == H + 7919 * j
  IN [id |-> ToString(<<"gp", loops, j>>), fam |-> FAM, den |-> 2, ops |-> AllOps(loops, 1, h),
      rule |-> IF (h \div 3) % 2 = 0 THEN "NonZero" ELSE "EvenOdd"]
Emit == Done => \A j \in 0..(NVAR - 1) : PrintT(ToJson(IF FAM = "cov" THEN Variant(j) ELSE VariantPath(j)))
=============================================================================
