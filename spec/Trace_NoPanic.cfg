INIT Init
NEXT Next
INVARIANT Check
CHECK_DEADLOCK FALSE
