------------------------------ MODULE Gen_Curve ------------------------------
(* Scenario generator for C08 and C16: paths mixing MoveTo / LineTo /        *)
(* QuadTo / CubicTo / Close with control points on the half-pixel lattice,    *)
(* including curves as the first op, directly after MoveTo and directly       *)
(* after Close, loops and cusps; dyadic transforms.  Explored by simulation   *)
(* (the branching of CubicTo is 512) and, with NOPS <= 2, exhaustively.       *)
EXTENDS Integers, Sequences, TLC, Json, Env
NOPS == EnvInt("NOPS", 4)
NVAR == EnvInt("NVAR", 1)
FAM  == EnvStr("FAM", "curve")       \* curve (C08 render) | flatten (C16)
SALT == EnvInt("SALT", 0)
SIZE == 16
VARIABLES ops, hs, fin, pend
vars == <<ops, hs, fin, pend>>
\* points in units of 1/2 px
Pts == {<<4, 4>>, <<26, 6>>, <<16, 28>>, <<8, 18>>, <<22, 20>>, <<13, 9>>, <<-6, 12>>, <<30, 30>>}
\* MODE = "strings": every op-kind string of length 2..NOPS over {M, L, Q, C, Z} that contains a
\* curve (no leading Z, no ZZ), with points assigned from the menu by position
MODE == EnvStr("MODE", "build")
PtSeq == << <<4, 4>>, <<26, 6>>, <<16, 28>>, <<8, 18>>, <<22, 20>>, <<13, 9>>, <<-6, 12>>, <<30, 30>> >>
Pt(i, j) == PtSeq[((i * 5 + j * 3 + SALT) % 8) + 1]
OpOf(k, i) == CASE k = "M" -> <<"M", Pt(i, 0)[1], Pt(i, 0)[2]>>
                [] k = "L" -> <<"L", Pt(i, 1)[1], Pt(i, 1)[2]>>
                [] k = "Q" -> <<"Q", Pt(i, 2)[1], Pt(i, 2)[2], Pt(i, 3)[1], Pt(i, 3)[2]>>
                [] k = "C" -> <<"C", Pt(i, 4)[1], Pt(i, 4)[2], Pt(i, 5)[1], Pt(i, 5)[2], Pt(i, 6)[1], Pt(i, 6)[2]>>
                [] k = "Z" -> <<"Z">>
KindStrings == {ks \in UNION {[1..n -> {"M", "L", "Q", "C", "Z"}] : n \in 2..NOPS} :
                  /\ ks[1] # "Z"
                  /\ \A i \in 1..(Len(ks) - 1) : ~(ks[i] = "Z" /\ ks[i + 1] = "Z")
                  /\ \E i \in 1..Len(ks) : ks[i] \in {"Q", "C"}}
Init == IF MODE = "strings"
        THEN /\ \E ks \in KindStrings : ops = [i \in 1..Len(ks) |-> OpOf(ks[i], i)] /\ hs = (Len(ks) * 7919 + SALT) % 1000003
             /\ fin = TRUE /\ pend = ""
        ELSE ops = <<>> /\ hs = SALT /\ fin = FALSE /\ pend = ""
HP(p) == p[1] * 7 + p[2] * 3 + 100
Add(op, h) == /\ ops' = Append(ops, op) /\ hs' = (hs * 31 + h) % 1000003 /\ pend' = "" /\ UNCHANGED fin
\* the kind of the next op is chosen first (so that simulation picks the five kinds with equal
\* probability although CubicTo has 512 parameter choices and Close has one), then its points
ChooseKind == /\ ~fin /\ pend = "" /\ Len(ops) < NOPS
              /\ \E k \in {"M", "L", "Q", "C", "Z"} :
                    /\ (k = "Z") => (ops # <<>> /\ ops[Len(ops)][1] # "Z")
                    /\ pend' = k
              /\ UNCHANGED <<ops, hs, fin>>
ChooseArgs == /\ ~fin /\ pend # ""
              /\ \/ pend = "M" /\ \E p \in Pts : Add(<<"M", p[1], p[2]>>, HP(p))
                 \/ pend = "L" /\ \E p \in Pts : Add(<<"L", p[1], p[2]>>, 2 * HP(p))
                 \/ pend = "Q" /\ \E c \in Pts, p \in Pts : Add(<<"Q", c[1], c[2], p[1], p[2]>>, 3 * HP(c) + HP(p))
                 \/ pend = "C" /\ \E c \in Pts, d \in Pts, p \in Pts : Add(<<"C", c[1], c[2], d[1], d[2], p[1], p[2]>>, 5 * HP(c) + 7 * HP(d) + HP(p))
                 \/ pend = "Z" /\ Add(<<"Z">>, 11)
Finish == ~fin /\ pend = "" /\ Len(ops) >= 2 /\ fin' = TRUE /\ UNCHANGED <<ops, hs, pend>>
Next == ChooseKind \/ ChooseArgs \/ Finish
HasCurve == \E i \in 1..Len(ops) : ops[i][1] \in {"Q", "C"}
T(m, d) == [m |-> m, mden |-> d]
Transforms == << T(<<1, 0, 0, 1, 0, 0>>, 1), T(<<1, 0, 0, 1, 0, 0>>, 1), T(<<1, 0, 0, 1, 2, -1>>, 1), T(<<2, 0, 0, 2, -8, -10>>, 1),
                 T(<<0, 1, -1, 0, 16, 0>>, 1), T(<<-1, 0, 0, 1, 16, 0>>, 1), T(<<1, 0, 0, 1, 0, 0>>, 2), T(<<2, 0, 0, 2, 1, 1>>, 2) >>
Tols == << <<1, 1>>, <<1, 4>>, <<1, 16>>, <<1, 64>>, <<1, 10>>, <<1, 1024>> >>
Variant(j) ==
  LET h == hs + 7919 * j IN
  IF FAM = "curve"
  THEN [id |-> ToString(<<"gq", hs, j>>), fam |-> "stroke", kind |-> IF (h \div 11) % 5 = 0 THEN "clip" ELSE "fill",
        w |-> SIZE, h |-> SIZE, den |-> 2, ops |-> ops, rule |-> IF (h \div 3) % 2 = 0 THEN "NonZero" ELSE "EvenOdd",
        ctm |-> Transforms[((h \div 5) % Len(Transforms)) + 1]]
  ELSE IF FAM = "cstroke"
  THEN [id |-> ToString(<<"gq", hs, j>>), fam |-> "stroke", kind |-> "stroke", w |-> SIZE, h |-> SIZE, den |-> 2, ops |-> ops,
        \* similarity transforms only (discs stay discs); widths 5, 6, 8 px in user space
        ctm |-> << Transforms[1], Transforms[3], Transforms[5], Transforms[6], Transforms[7] >>[((h \div 5) % 5) + 1],
        style |-> [width |-> <<10, 12, 16>>[((h \div 11) % 3) + 1], cap |-> <<"Round", "Butt", "Round", "Square">>[((h \div 13) % 4) + 1],
                   join |-> "Round", miter |-> <<4, 1>>]]
  ELSE [id |-> ToString(<<"gq", hs, j>>), fam |-> "flatten", den |-> 2, ops |-> ops, rule |-> IF (h \div 3) % 2 = 0 THEN "NonZero" ELSE "EvenOdd",
        tol |-> Tols[((h \div 5) % Len(Tols)) + 1]]
Emit == (fin /\ HasCurve) => \A j \in 0..(NVAR - 1) : PrintT(ToJson(Variant(j)))
=============================================================================
