------------------------------ MODULE Gen_Stroke ------------------------------
(* Scenario generator for C04 (and, with DASH = 1, C09): polylines built     *)
(* step by step from a menu of directions with integer lengths (axis         *)
(* parallel and 3-4-5 / 5-12-13 directions, so every turning angle from the  *)
(* menu 0, 16, 37, 53, 74, 90, 106, 127, 143, 164, 180 degrees occurs),      *)
(* open or closed, one or two subpaths; style (width, cap, join, miter       *)
(* limit) and transform by hash, NVAR variants per polyline.                 *)
EXTENDS Integers, Sequences, TLC, Json, Env
NSEG  == EnvInt("NSEG", 2)          \* segments per subpath
NSUB  == EnvInt("NSUB", 1)
NVAR  == EnvInt("NVAR", 1)
FAMILY == EnvInt("FAMILY", 5)       \* 5: 3-4-5 directions, 13: 5-12-13 directions
DASH  == EnvInt("DASH", 0)
SALT  == EnvInt("SALT", 0)
SIZE == 24
VARIABLES subs, cur, hs
vars == <<subs, cur, hs>>
Steps == IF FAMILY = 5
         THEN {<<4, 0>>, <<9, 0>>, <<-6, 0>>, <<0, 5>>, <<0, -8>>, <<0, 11>>, <<3, 4>>, <<6, 8>>, <<-3, 4>>, <<4, -3>>, <<-8, -6>>, <<-4, 3>>, <<8, 6>>, <<3, -4>>}
         ELSE {<<5, 0>>, <<-7, 0>>, <<0, 6>>, <<0, -9>>, <<5, 12>>, <<12, 5>>, <<-5, 12>>, <<12, -5>>, <<-12, -5>>, <<-5, -12>>}
Starts == {<<6, 6>>, <<12, 10>>, <<17, 15>>}
InRange(p) == 2 <= p[1] /\ p[1] <= SIZE - 2 /\ 2 <= p[2] /\ p[2] <= SIZE - 2
\* DASH = 2: two subpaths, a long open polyline and a small closed shape, in either order
\* (pattern restart per subpath, closed subpaths shorter than the first dash)
LongOpen == { << <<3, 4>>, <<21, 4>>, <<21, 12>> >>, << <<2, 20>>, <<14, 20>>, <<14, 8>>, <<20, 8>> >>, << <<4, 2>>, <<4, 22>> >> }
SmallClosed == { << <<8, 10>>, <<11, 10>>, <<11, 14>> >>, << <<15, 14>>, <<19, 14>>, <<19, 17>>, <<15, 17>> >>,
                 << <<9, 16>>, <<13, 16>> >>, << <<16, 3>>, <<19, 7>>, <<16, 7>> >> }
Init == IF DASH = 2
        THEN /\ \E a \in LongOpen, b \in SmallClosed, o \in {0, 1} : subs = IF o = 0 THEN <<a, b>> ELSE <<b, a>>
             /\ cur = <<>> /\ hs \in {SALT + k : k \in 0..EnvInt("NH", 5)}
        ELSE subs = <<>> /\ cur = <<>> /\ hs = SALT
Done == Len(subs) = (IF DASH = 2 THEN 2 ELSE NSUB)
Begin == /\ ~Done /\ cur = <<>>
         /\ \E s \in Starts : cur' = <<s>> /\ hs' = (hs * 31 + s[1] * 7 + s[2]) % 1000003
         /\ UNCHANGED subs
Step == /\ ~Done /\ cur # <<>> /\ Len(cur) <= NSEG
        /\ \E d \in Steps :
             LET p == cur[Len(cur)] q == <<p[1] + d[1], p[2] + d[2]>> IN
             /\ InRange(q)
             /\ cur' = Append(cur, q)
             /\ hs' = (hs * 31 + (d[1] + 20) * 41 + d[2] + 20) % 1000003
        /\ UNCHANGED subs
Finish == /\ ~Done /\ Len(cur) >= 2
          /\ subs' = Append(subs, cur) /\ cur' = <<>> /\ hs' = (hs * 31 + 3) % 1000003
Next == Begin \/ Step \/ Finish

Caps == <<"Butt", "Round", "Square">>
Joins == <<"Miter", "Round", "Bevel">>
Miters == << <<1, 1>>, <<3, 2>>, <<4, 1>>, <<10, 1>> >>
Widths == <<2, 4, 6, 3>>
T(m, d) == [m |-> m, mden |-> d]
Transforms == << T(<<1, 0, 0, 1, 0, 0>>, 1), T(<<1, 0, 0, 1, 0, 0>>, 1), T(<<2, 0, 0, 2, 1, 1>>, 4), T(<<0, 1, -1, 0, 24, 0>>, 1),
                 T(<<2, 0, 0, 2, -20, -18>>, 1), T(<<1, 0, 0, 1, 0, 0>>, 2), T(<<-1, 0, 0, 1, 24, 0>>, 1), T(<<3, 4, -4, 3, 40, -20>>, 5) >>
Dashes == IF DASH = 2 THEN << <<20, 5>>, <<15, 6>>, <<30, 4>>, <<12, 6, 3>>, <<25, 3>> >>
          ELSE << <<6, 4>>, <<9, 3>>, <<5>>, <<40, 3>>, <<3, 6, 9, 3>>, <<12, 6, 3>>, <<4, 4, 4, 4, 8, 8>>, <<100, 5>> >>
Offsets == <<0, 3, -4, 7, 25, -31, 100, 1>>
RECURSIVE SubOps(_, _, _)
SubOps(s, k, closed) ==
  IF k > Len(s) THEN (IF closed THEN << <<"Z">> >> ELSE <<>>)
  ELSE << <<IF k = 1 THEN "M" ELSE "L", s[k][1], s[k][2]>> >> \o SubOps(s, k + 1, closed)
\* one variant in six begins the path with LineTo instead of MoveTo (same subpath)
NoMove(ops, h) == IF ops # <<>> /\ (h \div 29) % 6 = 0 THEN << <<"L", ops[1][2], ops[1][3]>> >> \o Tail(ops) ELSE ops
RECURSIVE AllOps(_, _, _)
\* a subpath is only closed when its closing segment has integer length
ClosingOK(s) == LET dx == s[1][1] - s[Len(s)][1]  dy == s[1][2] - s[Len(s)][2]
                IN \E k \in 1..40 : k * k = dx * dx + dy * dy
AllOps(ss, i, h) == IF i > Len(ss) THEN <<>>
                    ELSE SubOps(ss[i], 1, IF DASH = 2 THEN ss[i] \in SmallClosed
                                          ELSE ((h \div 3) + i) % 3 # 0 /\ ClosingOK(ss[i])) \o AllOps(ss, i + 1, h)
Variant(j) ==
  LET h == hs + 7919 * j
      tr == Transforms[((h \div 5) % Len(Transforms)) + 1]
      jn == Joins[((h \div 7) % 3) + 1]
      \* round pieces need a similarity: all menu transforms are
      style0 == [width |-> Widths[((h \div 11) % 4) + 1], cap |-> Caps[((h \div 13) % 3) + 1], join |-> jn,
                 miter |-> Miters[((h \div 17) % 4) + 1]]
      style == IF DASH >= 1 THEN style0 @@ [dash |-> Dashes[((h \div 19) % Len(Dashes)) + 1],
                                           dash_offset |-> Offsets[((h \div 23) % Len(Offsets)) + 1]]
               ELSE style0
  IN [id |-> ToString(<<"gk", FAMILY, hs, j>>), fam |-> "stroke", kind |-> "stroke", w |-> SIZE, h |-> SIZE, den |-> 1,
      ops |-> NoMove(AllOps(subs, 1, h), h), style |-> style, ctm |-> tr, want_dash_path |-> (DASH >= 1), k |-> FAMILY]
Emit == Done => \A j \in 0..(NVAR - 1) : PrintT(ToJson(Variant(j)))
=============================================================================
