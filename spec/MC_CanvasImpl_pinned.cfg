CONSTANTS W = 3  H = 3  PINNED = TRUE  LAYERFULL = FALSE
INIT MCInit
NEXT MCNext
INVARIANT ClipRefines
INVARIANT AllocOK
INVARIANT NoPanic
INVARIANT AccessesOK
CHECK_DEADLOCK FALSE
