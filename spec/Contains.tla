------------------------------ MODULE Contains ------------------------------
(* C17: Path::contains_point on polyline paths (P level).                   *)
(* A point is contained iff it lies on a segment of the path, or the        *)
(* winding number of the implicitly closed loops (PathSem.FillLoops, the    *)
(* same loops that fill() paints) around it is inside under the rule.       *)
(* Points that lie only on an implicit closing segment are left open.       *)
EXTENDS Geom, PathSem

(* explicit segments: drawn by LineTo and Close ops                         *)
RECURSIVE ExplicitSegs(_, _)
ExplicitSegs(ops, cs) ==
  IF ops = <<>> THEN {}
  ELSE LET op == Head(ops)
           rest == ExplicitSegs(Tail(ops), CursorAfter(cs, op))
       IN CASE Kind(op) = "L" -> {<<StartOf(cs, op), EndPoint(op)>>} \cup rest
            [] Kind(op) = "Z" -> (IF cs.cur # <<>> /\ cs.start # <<>> THEN {<<cs.cur, cs.start>>} ELSE {}) \cup rest
            [] OTHER -> rest
OnExplicit(ops, q) == \E s \in ExplicitSegs(Expand(ops), NoCursor) : OnSegment(s[1], s[2], q)

(* "in", "out" or "free"                                                    *)
Verdict(ops, rule, q) ==
  LET ls == FillLoops(ops)
  IN IF OnExplicit(ops, q) THEN "in"
     ELSE IF OnLoops(ls, q) THEN "free"
     ELSE IF InsideRule(rule, Winding(ls, q)) THEN "in" ELSE "out"
=============================================================================
