------------------------------ MODULE MC_Cursor ------------------------------
(* Design-level check for the path cursor shared by C01/C08/C10 (fill),      *)
(* C16 (flatten) and C17 (contains_point): over every sequence of up to N    *)
(* ops from {MoveTo, LineTo, QuadTo, CubicTo, Close} x a 3-point menu -      *)
(* including paths that begin with a drawing op or with Close, repeated      *)
(* Close, drawing ops directly after Close - the three code-shaped machines  *)
(* of CursorImpl.tla refine the PathSem cursor:                              *)
(*   FillCursor / FillEdges  apply_path's current/first point and the exact  *)
(*                           edge sequence it hands to the rasteriser,       *)
(*   FillLoopsAgree          for polyline paths those edges have the net     *)
(*                           counts of PathSem.FillLoops (what Coverage.tla  *)
(*                           integrates),                                    *)
(*   FlatCursor / FlatFrom   flatten's cursor and the point each curve is    *)
(*                           flattened from,                                 *)
(*   FlatFillAgree           C16's consequence clause at chord level:        *)
(*                           filling the flattened path uses the same net    *)
(*                           edges as filling the original,                  *)
(*   HitAgree                contains_point's walk over the flattened path   *)
(*                           sees the same non-degenerate edges as fill.     *)
(* One step of the model is one op.  PINNED = 1 selects the pinned commit's  *)
(* machines (stale cursor across paths, cur_pt = None on Close, close not    *)
(* moving the hit-test cursor; 4 = flatten before cad0158, which lost the     *)
(* starting point of a subpath begun by a curve - a defect this model found   *)
(* through FlatFillAgree): each of them must fail.                            *)
EXTENDS CursorImpl, Env
N == EnvInt("N", 4)
PINNED == EnvInt("PINNED", 0)        \* 0 repaired, 1 fill pinned, 2 flatten pinned, 3 contains pinned, 4 flatten before cad0158
Pts == {<<0, 0>>, <<4, 0>>, <<0, 4>>}
Menu == {<<"M", p[1], p[2]>> : p \in Pts} \cup {<<"L", p[1], p[2]>> : p \in Pts}
        \cup {<<"Q", c[1], c[2], p[1], p[2]>> : c \in Pts, p \in Pts}
        \cup {<<"C", c[1], c[2], c[1], c[2], p[1], p[2]>> : c \in Pts, p \in Pts}
        \cup {<<"Z">>}
VARIABLES pre, fill0, fill, flat, cs
vars == <<pre, fill0, fill, flat, cs>>
Init == /\ pre = <<>>
        /\ fill0 \in (IF PINNED = 1 THEN {[cur |-> a, first |-> b, edges |-> <<>>] : a \in Pts, b \in Pts} ELSE {FillInit})
        /\ fill = fill0
        /\ flat = FlatInit
        /\ cs = NoCursor
Step(op) == /\ Len(pre) < N
            /\ pre' = Append(pre, op)
            /\ fill' = FillStep(fill, op)
            /\ flat' = FlatStep(flat, op, IF PINNED = 2 THEN "close-none" ELSE IF PINNED = 4 THEN "no-moveto" ELSE "ok")
            /\ cs' = CursorAfter(cs, op)
            /\ UNCHANGED fill0
Next == \E op \in Menu : Step(op)

FillCursor == fill.cur = cs.cur /\ fill.first = cs.start
FillEdges == FillFinish(fill).edges = PEdges(pre)
FillLoopsAgree == IsPolyline(pre) => SameNet(FillFinish(fill).edges, LoopsAsEdges(FillLoops(pre)))
FlatCursor == flat.cur = cs.cur /\ flat.start = cs.start
RECURSIVE CurveStarts(_, _)
CurveStarts(ops, c) == IF ops = <<>> THEN <<>>
                       ELSE (IF Kind(Head(ops)) \in {"Q", "C"} THEN <<StartOf(c, Head(ops))>> ELSE <<>>)
                            \o CurveStarts(Tail(ops), CursorAfter(c, Head(ops)))
FlatFrom == flat.from = CurveStarts(pre, NoCursor)
FlatFillAgree == SameNet(FillRun(flat.out).edges, FillFinish(fill).edges)
NonDeg(edges) == SelectSeq(Strip(edges), LAMBDA g : g[1] # g[2])
HitAgree == NonDeg(HitRun(flat.out, PINNED = 3).edges) = NonDeg(FillRun(flat.out).edges)
OutIsFlat == IsPolyline(flat.out) /\ Len(flat.out) >= Len(pre)
=============================================================================
