-------------------------- MODULE Trace_StrokeCurve --------------------------
(* Trace validation for C04 on curved paths stroked with round joins: every   *)
(* pixel deep inside the tube of half the stroke width around the curve must  *)
(* be fully painted, every pixel far outside it untouched (margin 1 px).      *)
EXTENDS Curve, TLC, Json, IOUtils
Rec == ndJsonDeserialize(IOEnv.TRACE)
VARIABLE i
Init == i \in 1..Len(Rec)
Next == FALSE /\ UNCHANGED i
White == <<255, 255, 255, 255>>
Zero == <<0, 0, 0, 0>>
\* scale of a similarity [m, mden]: sqrt(|det|) / mden, exact for the generator's menu
ScaleNum(t) == ISqrtFloor(Abs(t.m[1] * t.m[4] - t.m[2] * t.m[3]))
Check ==
  LET e == Rec[i] IN
  IF e.outcome # "ok" THEN PrintT(<<"BAD", i, e.id, "panic">>)
  ELSE LET quant == "fsubs" \in DOMAIN e      \* outline and half width supplied by the harness's abstraction function
           t == IF quant THEN [m |-> <<1, 0, 0, 1, 0, 0>>, mden |-> 1] ELSE [m |-> e.ctm.m, mden |-> e.ctm.mden]
           fs == IF quant THEN [subs |-> e.fsubs, eps |-> e.feps + e.fhw_slack] ELSE FineSubpaths(e.ops, t, e.den)
           hw == IF quant THEN e.fhw ELSE (e.style.width * FU * ScaleNum(t)) \div (2 * e.den * t.mden)
           cls == [k \in 1..(e.w * e.h) |-> ClassifyTube(fs, hw, e.style.cap, FU, (k - 1) % e.w, (k - 1) \div e.w)]
           badin == {k \in 1..(e.w * e.h) : cls[k] = "in" /\ e.pix[k] # White}
           badout == {k \in 1..(e.w * e.h) : cls[k] = "out" /\ e.pix[k] # Zero}
           nin == Cardinality({k \in 1..(e.w * e.h) : cls[k] = "in"})
       IN IF (~quant /\ ~DevExactFU(t, e.den)) \/ e.style.join # "Round" THEN PrintT(<<"SKIP", i, e.id>>)
          ELSE IF badin # {} \/ badout # {} THEN PrintT(<<"BAD", i, e.id, badin, badout>>)
          ELSE (nin = 0) \/ PrintT(<<"NT", i, nin>>)
=============================================================================
