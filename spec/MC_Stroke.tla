------------------------------ MODULE MC_Stroke ------------------------------
(* Design-level check for C04: the stroker's piece emission (StrokeImpl.tla)  *)
(* against the P-level structure, for every flat path of up to LEN ops over   *)
(* {MoveTo, LineTo, Close} with points from a 4-point menu (zero-length       *)
(* segments, 0 and 180 degree turns, ops after Close, first op LineTo,        *)
(* several subpaths).                                                         *)
EXTENDS StrokeImpl, Env
LEN == EnvInt("LEN", 5)
VARIABLE path0
Pts == {<<0, 0>>, <<4, 0>>, <<4, 3>>, <<8, 0>>}
OpSet == {<<"M", p[1], p[2]>> : p \in Pts} \cup {<<"L", p[1], p[2]>> : p \in Pts} \cup {<<"Z">>}
Paths == UNION {[1..n -> OpSet] : n \in 1..LEN}
MCInit == /\ path0 \in Paths /\ ops = path0 /\ cur = <<>> /\ startp = <<>> /\ lastDir = <<0, 0>> /\ emitted = <<>> /\ done = FALSE
MCNext == Next /\ UNCHANGED path0
Refines == done => SameBag(emitted, SpecPieces(path0))
=============================================================================
