------------------------------- MODULE Pixel -------------------------------
(* Per-pixel compositing arithmetic of raqote / sw-composite.              *)
(*                                                                         *)
(* A pixel is the tuple <<a, r, g, b>> of 8-bit premultiplied components   *)
(* (packed words exceed TLC's 31-bit integers, and every packed-word       *)
(* formula used by the library decomposes into independent 8-bit lanes on  *)
(* the property's domain: premultiplied sources; see DESIGN.md section 7,  *)
(* C03).  Weights are either 8-bit coverages 0..255 or 8.8 "alpha256"      *)
(* weights 0..256.                                                         *)
EXTENDS Fixed

Chan == 1..4                       \* 1 = alpha, 2 = red, 3 = green, 4 = blue
Byte == 0..255
PixelSet == [Chan -> Byte]
Transparent == <<0, 0, 0, 0>>

Premul(p) == p[2] <= p[1] /\ p[3] <= p[1] /\ p[4] <= p[1]

(*------------------------- scalar primitives ----------------------------*)
Alpha256(x)       == x + 1
MulDiv255(a, b)   == LET t == a * b + 128 IN (t + (t \div 256)) \div 256
Div255(a)         == LET t == a + 128 IN (t + (t \div 256)) \div 256
AlphaMul256(v, w) == LET p == v * w IN (p + (p \div 256)) \div 256
AlphaMulInv256(v, w) == 256 - AlphaMul256(v, w)

(* global alpha / opacity as the library converts it: (a * 255 + 0.5) as  *)
(* u8/u32 for a = n/d in [0, 1]                                            *)
AlphaByte(n, d) == (2 * 255 * n + d) \div (2 * d)

(*-------------------------- pixel primitives ----------------------------*)
AlphaMul(p, w) == [c \in Chan |-> (p[c] * w) \div 256]          \* w in 0..256

\* sw_composite::lerp, t in 0..256: each lane is a + floor((b - a) t / 256)
Lerp(a, b, t) == [c \in Chan |-> a[c] + ((b[c] - a[c]) * t) \div 256]

\* sw_composite::over (division by 256 variant); lanes do not carry when the
\* source is premultiplied
Over(s, d) == [c \in Chan |-> s[c] + (d[c] * (256 - s[1])) \div 256]
OverOK(s, d) == \A c \in Chan : s[c] + (d[c] * (256 - s[1])) \div 256 <= 255

\* sw_composite::over_in with the 8.8 source weight w already formed
OverW(s, d, w) ==
  LET dw == AlphaMulInv256(s[1], w)
  IN  [c \in Chan |-> ((s[c] * w + d[c] * dw) \div 256) % 256]
OverWOK(s, d, w) ==
  LET dw == AlphaMulInv256(s[1], w)
  IN  \A c \in Chan : s[c] * w + d[c] * dw < 65536

OverIn(s, d, cov)         == OverW(s, d, Alpha256(cov))
OverInIn(s, d, cov, clip) == OverW(s, d, Alpha256(AlphaMul256(clip, Alpha256(cov))))

\* sw_composite::alpha_lerp weight
AlphaLerpW(cov, clip) == AlphaMul256(Alpha256(cov), clip)

(*------------------------------ blend modes -----------------------------*)
PorterDuff == {"Dst", "Src", "Clear", "SrcOver", "DstOver", "SrcIn", "DstIn",
               "SrcOut", "DstOut", "SrcAtop", "DstAtop", "Xor", "Add"}
Separable  == {"Screen", "Overlay", "Darken", "Lighten", "ColorDodge",
               "ColorBurn", "HardLight", "SoftLight", "Difference",
               "Exclusion", "Multiply"}
NonSeparable == {"Hue", "Saturation", "Color", "Luminosity"}
Modes == PorterDuff \cup Separable \cup NonSeparable

SatAdd(a, b) == IF a + b > 255 THEN 255 ELSE a + b
SrcOverByte(a, b) == a + b - MulDiv255(a, b)
ClampDiv255Round(p) == IF p <= 0 THEN 0 ELSE IF p >= 255 * 255 THEN 255 ELSE Div255(p)
ClampSignedByte(n) == IF n < 0 THEN 0 ELSE IF n > 255 THEN 255 ELSE n

MultiplyByte(sc, dc, sa, da) == ClampDiv255Round(sc * (255 - da) + dc * (255 - sa) + sc * dc)
OverlayByte(sc, dc, sa, da) ==
  LET tmp == sc * (255 - da) + dc * (255 - sa)
      rc  == IF 2 * dc <= da THEN 2 * sc * dc
             ELSE sa * da - 2 * (da - dc) * (sa - sc)
  IN ClampDiv255Round(rc + tmp)
DarkenByte(sc, dc, sa, da) ==
  LET sd == sc * da  ds == dc * sa
  IN IF sd < ds THEN sc + dc - Div255(ds) ELSE dc + sc - Div255(sd)
LightenByte(sc, dc, sa, da) ==
  LET sd == sc * da  ds == dc * sa
  IN IF sd > ds THEN sc + dc - Div255(ds) ELSE dc + sc - Div255(sd)
ColorDodgeByte(sc, dc, sa, da) ==
  IF dc = 0 THEN MulDiv255(sc, 255 - da)
  ELSE IF sa - sc = 0
       THEN ClampDiv255Round(sa * da + sc * (255 - da) + dc * (255 - sa))
       ELSE LET diff == TruncDiv(dc * sa, sa - sc)
            IN ClampDiv255Round(sa * (IF da < diff THEN da ELSE diff)
                                + sc * (255 - da) + dc * (255 - sa))
ColorBurnByte(sc, dc, sa, da) ==
  IF dc = da THEN ClampDiv255Round(sa * da + sc * (255 - da) + dc * (255 - sa))
  ELSE IF sc = 0 THEN MulDiv255(dc, 255 - sa)
  ELSE LET tmp == TruncDiv((da - dc) * sa, sc)
       IN ClampDiv255Round(sa * (da - (IF da < tmp THEN da ELSE tmp))
                           + sc * (255 - da) + dc * (255 - sa))
HardLightByte(sc, dc, sa, da) ==
  LET rc == IF 2 * sc <= sa THEN 2 * sc * dc
            ELSE sa * da - 2 * (da - dc) * (sa - sc)
  IN ClampDiv255Round(rc + sc * (255 - da) + dc * (255 - sa))
\* sw-composite's sqrt_bits leaves its loop after one iteration (the loop
\* counter is never decremented), so sqrt_unit_byte is the constant 0
SqrtUnitByte(n) == 0
SoftLightByte(sc, dc, sa, da) ==
  LET m  == IF da # 0 THEN TruncDiv(dc * 256, da) ELSE 0
      rc == IF 2 * sc <= sa
            THEN dc * (sa + Shr((2 * sc - sa) * (256 - m), 8))
            ELSE IF 4 * dc <= da
            THEN LET tmp == Shr(4 * m * (4 * m + 256) * (m - 256), 16) + 7 * m
                 IN dc * sa + Shr(da * (2 * sc - sa) * tmp, 8)
            ELSE LET tmp == SqrtUnitByte(m) - m
                 IN dc * sa + Shr(da * (2 * sc - sa) * tmp, 8)
  IN ClampDiv255Round(rc + sc * (255 - da) + dc * (255 - sa))
DifferenceByte(sc, dc, sa, da) ==
  ClampSignedByte(sc + dc - 2 * Div255(Min(sc * da, dc * sa)))
ExclusionByte(sc, dc, sa, da) == ClampDiv255Round(255 * (sc + dc) - 2 * sc * dc)

SepByte(mode, sc, dc, sa, da) ==
  CASE mode = "Multiply"   -> MultiplyByte(sc, dc, sa, da)
    [] mode = "Screen"     -> SrcOverByte(sc, dc)
    [] mode = "Overlay"    -> OverlayByte(sc, dc, sa, da)
    [] mode = "Darken"     -> DarkenByte(sc, dc, sa, da)
    [] mode = "Lighten"    -> LightenByte(sc, dc, sa, da)
    [] mode = "ColorDodge" -> ColorDodgeByte(sc, dc, sa, da)
    [] mode = "ColorBurn"  -> ColorBurnByte(sc, dc, sa, da)
    [] mode = "HardLight"  -> HardLightByte(sc, dc, sa, da)
    [] mode = "SoftLight"  -> SoftLightByte(sc, dc, sa, da)
    [] mode = "Difference" -> DifferenceByte(sc, dc, sa, da)
    [] mode = "Exclusion"  -> ExclusionByte(sc, dc, sa, da)

(*---- non-separable modes (Hue, Saturation, Color, Luminosity) -----------*)
\* trunc(a * b / c) with a 64-bit intermediate, from 31-bit pieces.
\* |a| < 2^19, |b| < 2^17, 0 < |c| < 2^19.
MulDivNN(a, b, c) ==      \* a, b >= 0, c > 0
  LET qa == a \div c  ra == a % c
      b1 == b \div 256  b0 == b % 256
      t  == ra * b1
      qt == t \div c  rt == t % c
  IN qa * b + qt * 256 + (rt * 256 + ra * b0) \div c
MulDivT(a, b, c) ==
  LET s == Sgn(a) * Sgn(b) * Sgn(c)
  IN s * MulDivNN(Abs(a), Abs(b), Abs(c))

Lum(r, g, b) == Div255(r * 77 + g * 150 + b * 28)
Min3(a, b, c) == Min(Min(a, b), c)
Max3(a, b, c) == Max(Max(a, b), c)
Sat3(r, g, b) == Max3(r, g, b) - Min3(r, g, b)

\* clip_color on a triple t = <<r, g, b>> with alpha bound a
ClipColor(t, a) ==
  LET L  == Lum(t[1], t[2], t[3])
      n  == Min3(t[1], t[2], t[3])
      x  == Max3(t[1], t[2], t[3])
      t1 == IF n < 0 /\ L - n # 0
            THEN [i \in 1..3 |-> L + MulDivT(t[i] - L, L, L - n)] ELSE t
      \* the second clip uses L, n, x computed before the first clip
      t2 == IF x > a /\ x - L # 0
            THEN [i \in 1..3 |-> L + MulDivT(t1[i] - L, a - L, x - L)] ELSE t1
  IN t2
SetLum(t, a, l) ==
  LET d == l - Lum(t[1], t[2], t[3])
  IN ClipColor([i \in 1..3 |-> t[i] + d], a)
\* set_sat: the smallest component becomes 0, the largest s, the middle one
\* is scaled; ties are resolved by the comparison order of the Rust code.
SetSat(t, s) ==
  LET r == t[1]  g == t[2]  b == t[3]
      \* indices (imin, imid, imax) as chosen by the if-chain
      ord == IF r <= g
             THEN IF g <= b THEN <<1, 2, 3>>
                  ELSE IF r <= b THEN <<1, 3, 2>> ELSE <<3, 1, 2>>
             ELSE IF r <= b THEN <<2, 1, 3>>
                  ELSE IF g <= b THEN <<2, 3, 1>> ELSE <<3, 2, 1>>
      cmin == t[ord[1]]  cmid == t[ord[2]]  cmax == t[ord[3]]
      nmid == IF cmax > cmin THEN MulDivT(cmid - cmin, s, cmax - cmin) ELSE 0
      nmax == IF cmax > cmin THEN s ELSE 0
  IN [i \in 1..3 |-> IF i = ord[1] THEN 0 ELSE IF i = ord[2] THEN nmid ELSE nmax]

NonSepTriple(mode, s, d) ==
  LET sa == s[1]  da == d[1]
      S == <<s[2] * sa, s[3] * sa, s[4] * sa>>
      D == <<d[2] * sa, d[3] * sa, d[4] * sa>>
  IN IF sa = 0 \/ da = 0 THEN <<0, 0, 0>>
     ELSE CASE mode = "Hue" ->
                 SetLum(SetSat(S, Sat3(d[2], d[3], d[4]) * sa), sa * da,
                        Lum(d[2], d[3], d[4]) * sa)
            [] mode = "Saturation" ->
                 SetLum(SetSat(D, Sat3(s[2], s[3], s[4]) * da), sa * da,
                        Lum(d[2], d[3], d[4]) * sa)
            [] mode = "Color" ->
                 SetLum(S, sa * da, Lum(d[2], d[3], d[4]) * sa)
            [] mode = "Luminosity" ->
                 SetLum(D, sa * da, Lum(s[2], s[3], s[4]) * da)
NonSepByte(sc, dc, sa, da, v) == ClampDiv255Round(sc * (255 - da) + dc * (255 - sa) + v)

(* Blend(mode, s, d): sw_composite::blend::<mode>::blend(s, d).            *)
Blend(mode, s, d) ==
  LET sa == s[1]  da == d[1] IN
  CASE mode = "Dst"     -> d
    [] mode = "Src"     -> s
    [] mode = "Clear"   -> Transparent
    [] mode = "SrcOver" -> Over(s, d)
    [] mode = "DstOver" -> Over(d, s)
    [] mode = "SrcIn"   -> AlphaMul(s, Alpha256(da))
    [] mode = "DstIn"   -> AlphaMul(d, Alpha256(sa))
    [] mode = "SrcOut"  -> AlphaMul(s, Alpha256(255 - da))
    [] mode = "DstOut"  -> AlphaMul(d, Alpha256(255 - sa))
    [] mode = "SrcAtop" ->
         [c \in Chan |-> IF c = 1 THEN da
                         ELSE MulDiv255(da, s[c]) + MulDiv255(255 - sa, d[c])]
    [] mode = "DstAtop" ->
         [c \in Chan |-> IF c = 1 THEN sa
                         ELSE MulDiv255(255 - da, s[c]) + MulDiv255(sa, d[c])]
    [] mode = "Xor" ->
         [c \in Chan |-> IF c = 1 THEN sa + da - 2 * MulDiv255(sa, da)
                         ELSE MulDiv255(255 - da, s[c]) + MulDiv255(255 - sa, d[c])]
    [] mode = "Add" -> [c \in Chan |-> SatAdd(s[c], d[c])]
    [] mode \in Separable ->
         [c \in Chan |-> IF c = 1 THEN SrcOverByte(sa, da)
                         ELSE SepByte(mode, s[c], d[c], sa, da)]
    [] mode \in NonSeparable ->
         LET v == NonSepTriple(mode, s, d)
         IN [c \in Chan |-> IF c = 1 THEN SrcOverByte(sa, da)
                            ELSE NonSepByte(s[c], d[c], sa, da, v[c - 1])]

(* Is the per-lane transcription valid for these operands?  (Packed-word   *)
(* lanes must not carry; sw-composite's pack_argb32 debug-asserts          *)
(* premultiplied results, which is C18's business, not this predicate's.)  *)
BlendDefined(mode, s, d) ==
  CASE mode = "SrcOver" -> OverOK(s, d)
    [] mode = "DstOver" -> OverOK(d, s)
    [] mode = "SoftLight" -> Premul(s) /\ Premul(d)
    [] mode \in {"SrcAtop", "DstAtop", "Xor"} ->
         \A c \in Chan : Blend(mode, s, d)[c] \in Byte
    [] OTHER -> TRUE

(*------------------- the property-level allowed sets --------------------*)
(* Ways the library may combine a coverage byte and a clip byte into one   *)
(* 8.8 interpolation weight (C03, "coverage x clip coverage").             *)
LerpWeights(cov, clip) ==
  IF clip = 255 THEN {Alpha256(cov)}
  ELSE {Alpha256(MulDiv255(cov, clip)),
        AlphaMul256(Alpha256(cov), clip),
        Alpha256(AlphaMul256(clip, Alpha256(cov)))}

(* C03: the values a pixel may take after compositing source colour s      *)
(* (already scaled by the global alpha) over d with shape coverage cov and *)
(* clip coverage clip under `mode`.                                        *)
Composite(mode, s, d, cov, clip) ==
  IF mode = "SrcOver"
  THEN IF cov = 0 \/ clip = 0 THEN {d}
       ELSE IF clip = 255 THEN {OverIn(s, d, cov)}
       ELSE {OverInIn(s, d, cov, clip), OverIn(s, d, MulDiv255(cov, clip))}
  ELSE LET B == Blend(mode, s, d) IN
       IF cov = 0 \/ clip = 0 THEN {d}
       ELSE IF cov = 255 /\ clip = 255 THEN {B}
       ELSE {Lerp(d, B, w) : w \in LerpWeights(cov, clip)}
=============================================================================
