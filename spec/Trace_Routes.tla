---------------------------- MODULE Trace_Routes ----------------------------
(* Two-route equalities (C11 a/f, C14, C05, C16): the property says that    *)
(* two ways of drawing give bit-identical pixels; each record holds the     *)
(* pixels both routes produced from the same initial contents.              *)
EXTENDS Integers, Sequences, TLC, Json, IOUtils
Rec == ndJsonDeserialize(IOEnv.TRACE)
VARIABLE i
Init == i \in 1..Len(Rec)
Next == FALSE /\ UNCHANGED i
Check ==
  LET e == Rec[i] IN
  IF e.oa # "ok" \/ e.ob # "ok" THEN PrintT(<<"BAD", i, e.id, "panic", e.oa, e.ob>>)
  ELSE IF e.pa # e.pb THEN PrintT(<<"BAD", i, e.id, "differ", {k \in 1..Len(e.pa) : e.pa[k] # e.pb[k]}>>)
  ELSE e.pa = e.init \/ PrintT(<<"NT", i>>)
=============================================================================
