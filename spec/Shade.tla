------------------------------- MODULE Shade -------------------------------
(* Source colours (P level): C13 image sources, C12 gradient sources.       *)
(*                                                                          *)
(* Affine maps are <<m11, m12, m21, m22, m31, m32>> / den as in euclid:     *)
(* (x, y) |-> (x m11 + y m21 + m31, x m12 + y m22 + m32).  Image-space and  *)
(* gradient-space positions are carried in units of 1/65536 (16.16), which  *)
(* is exact for the dyadic transforms the generators use.                   *)
EXTENDS Pixel

(*----------------------------- affine algebra ----------------------------*)
Aff(m, den) == [m |-> m, den |-> den]
AffDet(t) == t.m[1] * t.m[4] - t.m[2] * t.m[3]          \* over den^2
\* inverse: numerators over the new denominator AffDet(t) (sign normalised)
AffInv(t) ==
  LET m == t.m  d == t.den  det == AffDet(t)
      s == IF det < 0 THEN -1 ELSE 1
      \* linear part: (d / det) * [m4 -m2; -m3 m1];  translation: -(t) * linear
      a11 == s * m[4] * d    a12 == -s * m[2] * d
      a21 == -s * m[3] * d   a22 == s * m[1] * d
      a31 == -s * (m[5] * m[4] - m[6] * m[3])
      a32 == -s * (m[6] * m[1] - m[5] * m[2])
  IN Aff(<<a11, a12, a21, a22, a31, a32>>, s * det)
\* a then b  (apply a first)
AffThen(a, b) ==
  LET x == a.m  y == b.m
  IN Aff(<<x[1] * y[1] + x[2] * y[3], x[1] * y[2] + x[2] * y[4],
           x[3] * y[1] + x[4] * y[3], x[3] * y[2] + x[4] * y[4],
           x[5] * y[1] + x[6] * y[3] + y[5] * a.den, x[5] * y[2] + x[6] * y[4] + y[6] * a.den>>,
         a.den * b.den)
\* position of the centre of pixel (px, py) in 1/65536 units (den must divide 32768)
Centre16(t, px, py) ==
  LET k == 32768 \div t.den          \* (2px+1)/2 * m / den * 65536 = (2px+1) * m * (32768/den)
  IN <<((2 * px + 1) * t.m[1] + (2 * py + 1) * t.m[3] + 2 * t.m[5]) * k,
       ((2 * px + 1) * t.m[2] + (2 * py + 1) * t.m[4] + 2 * t.m[6]) * k>>
Dyadic16(t) == t.den > 0 /\ 32768 % t.den = 0

(*--------------------------------- images --------------------------------*)
(* img = [w, h, data]; texel (x, y) with the extend mode applied            *)
Texel(img, ext, x, y) ==
  LET xx == IF ext = "Repeat" THEN x % img.w ELSE Clamp(x, 0, img.w - 1)
      yy == IF ext = "Repeat" THEN y % img.h ELSE Clamp(y, 0, img.h - 1)
  IN img.data[yy * img.w + xx + 1]

\* fixed-point slack: the library converts the matrix to 16.16 with up to one
\* unit of error per entry, which accumulates over the pixel coordinates
Slack16 == 24
Floor16(v) == v \div 65536
NearestSet(img, ext, c) ==
  {Texel(img, ext, Floor16(c[1] + dx), Floor16(c[2] + dy)) : dx \in {-Slack16, Slack16}, dy \in {-Slack16, Slack16}}
\* a map whose entries are exact in 16.16 (small dyadic denominators) needs no slack: exactly texel (floor x, floor y),
\* also when the pixel centre falls on a texel boundary
NearestExact(img, ext, c) == {Texel(img, ext, Floor16(c[1]), Floor16(c[2]))}

\* 4-bit bilinear interpolation around (x - 1/2, y - 1/2)
Bilin(img, ext, u, v) ==
  LET x1 == Floor16(u)  y1 == Floor16(v)
      wx == (u \div 4096) % 16   wy == (v \div 4096) % 16
      tl == Texel(img, ext, x1, y1)      tr == Texel(img, ext, x1 + 1, y1)
      bl == Texel(img, ext, x1, y1 + 1)  br == Texel(img, ext, x1 + 1, y1 + 1)
      S(ch) == tl[ch] * (16 - wx) * (16 - wy) + tr[ch] * wx * (16 - wy) + bl[ch] * (16 - wx) * wy + br[ch] * wx * wy
  IN {[ch \in Chan |-> S(ch) \div 256], [ch \in Chan |-> (S(ch) + 128) \div 256]}
BilinearSet(img, ext, c) ==
  UNION {Bilin(img, ext, c[1] - 32768 + dx, c[2] - 32768 + dy) : dx \in {-Slack16, Slack16}, dy \in {-Slack16, Slack16}}

ScaledBy(p, ab) == {AlphaMul(p, Alpha256(ab)), [ch \in Chan |-> MulDiv255(p[ch], ab)]}
\* bilinear with alpha scales the unreduced sum; accept both orders of rounding
ImageColoursX(img, ext, filter, c, ab, exact) ==
  LET base == IF filter = "Nearest" THEN (IF exact THEN NearestExact(img, ext, c) ELSE NearestSet(img, ext, c)) ELSE BilinearSet(img, ext, c)
  IN UNION {ScaledBy(p, ab) : p \in base}
ImageColours(img, ext, filter, c, ab) ==
  LET base == IF filter = "Nearest" THEN NearestSet(img, ext, c) ELSE BilinearSet(img, ext, c)
  IN UNION {ScaledBy(p, ab) : p \in base}

(* the consequences the property lists for arbitrary (non-dyadic) maps:     *)
(* every channel within the range of the texels around the sample position  *)
TexelRange(img, ext, c, ch) ==
  LET xs == {Floor16(c[1] - 32768 - Slack16), Floor16(c[1] - 32768 + Slack16) + 1}
      ys == {Floor16(c[2] - 32768 - Slack16), Floor16(c[2] - 32768 + Slack16) + 1}
      vals == {Texel(img, ext, x, y)[ch] : x \in (SetMin(xs))..(SetMax(xs)), y \in (SetMin(ys))..(SetMax(ys))}
  IN <<SetMin(vals), SetMax(vals)>>

(*------------------------------- gradients -------------------------------*)
(* stops: sequence of <<<<pos_n, pos_d>>, <<a, r, g, b>>>> (unpremultiplied), *)
(* positions non-decreasing in [0, 1].  t is carried in units of 1/65536.   *)
StopPos16(s) == (s[1][1] * 65536) \div s[1][2]
\* unpremultiplied gradient colour at t16, channel ch: an interval [lo, hi]
\* (floor / ceiling of the exact linear interpolation)
GradChan(stops, t16, ch) ==
  LET n == Len(stops)
      P(i) == StopPos16(stops[i])
      \* stops exactly at t16 (several when stops coincide: the colour jumps there and
      \* every one of them is a value the gradient takes at t16)
      at == {stops[i][2][ch] : i \in {k \in 1..n : P(k) = t16}}
      \* strictly inside a segment
      seg == {i \in 1..(n - 1) : P(i) < t16 /\ t16 < P(i + 1)}
      mid == UNION {LET a == stops[i][2][ch]  b == stops[i + 1][2][ch]
                        num == a * (P(i + 1) - P(i)) + (b - a) * (t16 - P(i))
                        den == P(i + 1) - P(i)
                    IN {FloorDiv(num, den), CeilDiv(num, den)} : i \in seg}
      ends == (IF t16 < P(1) THEN {stops[1][2][ch]} ELSE {}) \cup (IF t16 > P(n) THEN {stops[n][2][ch]} ELSE {})
      all == at \cup mid \cup ends
  IN <<SetMin(all), SetMax(all)>>
\* spread: map t16 to [0, 65536]
SpreadT(spread, t16) ==
  CASE spread = "Pad" -> Clamp(t16, 0, 65536)
    [] spread = "Repeat" -> t16 % 65536
    [] spread = "Reflect" -> LET k == t16 % 131072 IN IF k > 65536 THEN 131072 - k ELSE k
\* the parameters in [0, 65536] reached by t in [lo, hi] under the spread mode, reduced to
\* the points where a piecewise-linear colour can attain its extremes: the window ends,
\* the stop positions inside it, and 0 / 65536 where the window wraps
WindowPoints(stops, spread, lo, hi) ==
  LET ends == {SpreadT(spread, lo), SpreadT(spread, hi)}
      wraps == IF spread = "Pad" THEN {}
               ELSE IF (lo \div 65536) # (hi \div 65536) THEN {0, 65536} ELSE {}
      inside == {StopPos16(stops[i]) : i \in 1..Len(stops)}
      \* a stop position p is reached iff some t in [lo, hi] maps to it
      reach(p) == CASE spread = "Pad" -> (lo <= p /\ p <= hi) \/ (p = 0 /\ lo <= 0) \/ (p = 65536 /\ hi >= 65536)
                    [] OTHER -> \E k \in ((lo \div 65536) - 1)..((hi \div 65536) + 1) :
                                  LET tt == IF spread = "Repeat" \/ k % 2 = 0 THEN k * 65536 + p ELSE k * 65536 + (65536 - p)
                                  IN lo <= tt /\ tt <= hi
  IN ends \cup wraps \cup {p \in inside : reach(p)}
\* premultiplied, alpha-scaled channel interval over a window of t
GradWindow(stops, spread, lo, hi, ab, ch) ==
  LET pts == WindowPoints(stops, spread, lo, hi)
      cl == SetMin({GradChan(stops, p, ch)[1] : p \in pts})
      chh == SetMax({GradChan(stops, p, ch)[2] : p \in pts})
      al == SetMin({GradChan(stops, p, 1)[1] : p \in pts})
      ah == SetMax({GradChan(stops, p, 1)[2] : p \in pts})
      \* premultiply (colour channels only) and scale by the global alpha: monotone in each factor
      plo == IF ch = 1 THEN (al * ab) \div 255 ELSE (cl * al * ab) \div (255 * 255)
      phi == IF ch = 1 THEN CeilDiv(ah * ab, 255) ELSE CeilDiv(chh * ah * ab, 255 * 255)
  IN <<plo, phi>>
=============================================================================
