--------------------------- MODULE Trace_Surface ---------------------------
(* Trace validation for C15: every recorded surface transfer of the real    *)
(* library must be the block transfer of Surface.tla.  Records are          *)
(* independent, so each is an initial state and 16 workers validate them in *)
(* parallel.  A failing record is printed, not raised, so one run reports   *)
(* every failure.                                                           *)
EXTENDS Surface, TLC, Json, IOUtils
Rec == ndJsonDeserialize(IOEnv.TRACE)
VARIABLE i
Init == i \in 1..Len(Rec)
Next == FALSE /\ UNCHANGED i

Expected(e) ==
  LET r  == Box(e.rect[1], e.rect[2], e.rect[3], e.rect[4])
      pm == PMap(e.sw, e.sh, e.dw, e.dh, r, e.dst[1], e.dst[2])
      al == AlphaByte(e.alpha[1], e.alpha[2])
  IN [k \in 1..(e.dw * e.dh) |->
        IF pm[k - 1] < 0 THEN e.before[k]
        ELSE Combine(e.kind, e.mode, al, e.src[pm[k - 1] + 1], e.before[k])]

Good(e) ==
  /\ e.outcome = "ok"
  /\ Len(e.after) = e.dw * e.dh
  /\ LET x == Expected(e) IN \A k \in 1..(e.dw * e.dh) : \A c \in 1..4 : e.after[k][c] = x[k][c]

Transfers(e) ==
  LET r  == Box(e.rect[1], e.rect[2], e.rect[3], e.rect[4])
      pm == PMap(e.sw, e.sh, e.dw, e.dh, r, e.dst[1], e.dst[2])
  IN Cardinality({k \in DOMAIN pm : pm[k] >= 0})

Check ==
  LET e == Rec[i] IN
  IF Good(e) THEN (Transfers(e) = 0 \/ PrintT(<<"NT", i, Transfers(e)>>))
  ELSE PrintT(<<"BAD", i, e.id, e.outcome>>)
=============================================================================
