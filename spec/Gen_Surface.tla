---------------------------- MODULE Gen_Surface ----------------------------
(* Scenario generator for C15: TLC enumerates the whole parameter space of  *)
(* small surface transfers and prints one scenario per state.               *)
EXTENDS Integers, Sequences, TLC, Json, Env
VARIABLES sizes, x0, y0, x1, y1, dx, dy
vars == <<sizes, x0, y0, x1, y1, dx, dy>>
CMin == EnvInt("CMIN", -1)
CMax == EnvInt("CMAX", 2)
DMin == EnvInt("DMIN", -2)
DMax == EnvInt("DMAX", 2)
AllSizes == EnvInt("ALLSIZES", 0) = 1
\* <<sw, sh, dw, dh>>
SizeMenu == IF AllSizes THEN {<<a, b, c, d>> : a \in 0..2, b \in 0..2, c \in 0..2, d \in 0..2}
            ELSE {<<1, 1, 1, 1>>, <<2, 2, 2, 2>>, <<2, 1, 1, 2>>, <<1, 2, 2, 1>>, <<2, 2, 1, 1>>,
                  <<1, 1, 2, 2>>, <<0, 2, 2, 2>>, <<2, 2, 2, 0>>, <<2, 1, 2, 2>>, <<2, 2, 2, 1>>,
                  <<1, 2, 2, 2>>, <<2, 2, 1, 2>>}
Init == /\ sizes \in SizeMenu
        /\ x0 \in CMin..CMax /\ y0 \in CMin..CMax /\ x1 \in CMin..CMax /\ y1 \in CMin..CMax
        /\ dx \in DMin..DMax /\ dy \in DMin..DMax
Next == FALSE /\ UNCHANGED vars
\* the kind, mode and alpha are a deterministic function of the geometry, so
\* that all of them occur without multiplying the space
H == (sizes[1] + 3 * sizes[2] + 5 * sizes[3] + 7 * sizes[4] + 11 * (x0 + 8) + 13 * (y0 + 8)
      + 17 * (x1 + 8) + 19 * (y1 + 8) + 23 * (dx + 8) + 29 * (dy + 8))
KindMenu == <<"copy", "blend", "alpha", "copy", "blend">>
ModeMenu == <<"Src", "SrcOver", "DstOver", "SrcIn", "DstOut", "Xor", "Add", "Multiply",
              "Screen", "Clear", "Darken">>
AlphaMenu == <<255, 128, 0, 1, 254>>
Scenario ==
  [id |-> ToString(<<"gs", sizes, x0, y0, x1, y1, dx, dy>>), fam |-> "surface",
   sw |-> sizes[1], sh |-> sizes[2], dw |-> sizes[3], dh |-> sizes[4],
   rect |-> <<x0, y0, x1, y1>>, dst |-> <<dx, dy>>,
   \* independent digits of H (kind and alpha must not share one: "alpha" would only ever see one value)
   kind |-> KindMenu[(H % 5) + 1], mode |-> ModeMenu[((H \div 5) % 11) + 1],
   alpha |-> <<AlphaMenu[((H \div 55) % 5) + 1], 255>>, noise |-> ((H \div 275) % 3 = 0)]
Emit == PrintT(ToJson(Scenario))
=============================================================================
