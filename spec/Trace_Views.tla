----------------------------- MODULE Trace_Views -----------------------------
(* Trace validation for C19: after the constructor and after every write    *)
(* through either view, the word view, the byte view, the exported PNG and  *)
(* the buffer returned by into_vec / into_inner must all agree with the     *)
(* Views.tla state.                                                         *)
EXTENDS Views, TLC, Json, IOUtils
Rec == ndJsonDeserialize(IOEnv.TRACE)
VARIABLE i
Init == i \in 1..Len(Rec)
Next == FALSE /\ UNCHANGED i
RECURSIVE States(_, _)
States(st, ws) == IF ws = <<>> THEN <<st>> ELSE <<st>> \o States(ApplyWrite(st, Head(ws)), Tail(ws))
Check ==
  LET e == Rec[i] IN
  IF e.outcome # "ok" THEN PrintT(<<"BAD", i, e.id, e.outcome>>)
  ELSE LET n == e.w * e.h
           sts == States(FromVec(e.pixels, n), e.writes)
           bad == {k \in 1..Len(sts) :
                     \/ e.obs[k].words # sts[k]
                     \/ e.obs[k].bytes # BytesOf(sts[k])
                     \/ (n > 0 /\ (\/ e.obs[k].png_w # e.w \/ e.obs[k].png_h # e.h
                                    \/ e.obs[k].png_kind # "Rgba8"
                                    \/ e.obs[k].png # PngOf(sts[k])))}
           final == sts[Len(sts)]
       IN IF Len(e.obs) # Len(sts) THEN PrintT(<<"BAD", i, e.id, "obs-count">>)
          ELSE IF bad # {} THEN PrintT(<<"BAD", i, e.id, "view", bad>>)
          ELSE IF e.into # final THEN PrintT(<<"BAD", i, e.id, "into_vec">>)
          ELSE IF e.solid_word # e.solid THEN PrintT(<<"BAD", i, e.id, "to_u32">>)
          ELSE (n = 0) \/ PrintT(<<"NT", i>>)
=============================================================================
