---------------------------- MODULE Trace_Flatten ----------------------------
(* Trace validation for C16: the ops returned by Path::flatten.              *)
EXTENDS Flatten, TLC, Json, IOUtils
Rec == ndJsonDeserialize(IOEnv.TRACE)
VARIABLE i
Init == i \in 1..Len(Rec)
Next == FALSE /\ UNCHANGED i
Check ==
  LET e == Rec[i] IN
  IF e.outcome # "ok" THEN PrintT(<<"BAD", i, e.id, "panic">>)
  ELSE LET tol8 == (8 * FU * e.tol[1]) \div e.tol[2] + 1
           m == IF ~OnlyFlat(e.out) THEN "curve-op-in-output" ELSE Match(Expand(e.ops), e.out, NoCursor, e.den, tol8)
       IN IF m # "ok" THEN PrintT(<<"BAD", i, e.id, m>>)
          ELSE IF e.rule # e.out_rule THEN PrintT(<<"BAD", i, e.id, "winding-rule-lost">>)
          ELSE PrintT(<<"NT", i>>)
=============================================================================
