--------------------------- MODULE Trace_StrokeOps ---------------------------
(* Binding of the stroker at the level of its output: the closed pieces that *)
(* stroke_to_path (public API) emits for a polyline, mapped to device space, *)
(* against the pieces of Stroke.tla (segment rectangles, bevel triangles,    *)
(* miter quadrilaterals, square caps; discs for round joins and caps).       *)
(*   every polygonal piece of the specification has a code polygon with the  *)
(*     same vertices (the code may add points on its boundary, e.g. the      *)
(*     vertex itself on a cap), and every straight-sided code polygon with   *)
(*     area is one of the specification's;                                   *)
(*   every curved code polygon lies within the disc of a round piece, and    *)
(*     every round piece that the specification commits to has one;          *)
(*   all pieces with area are wound the same way (they are filled together   *)
(*     under NonZero, oppositely wound overlaps would cancel).               *)
(* Tolerance TOLU (1/64 px).  A difference ("DRIFT") is a pointer, not a     *)
(* verdict on C04: the pipeline renders the input as it is and enlarged and  *)
(* Trace_Stroke decides per pixel.                                           *)
EXTENDS Dash, Json, IOUtils
Rec == ndJsonDeserialize(IOEnv.TRACE)
VARIABLE i
Init == i \in 1..Len(Rec)
Next == FALSE /\ UNCHANGED i
TOLU == 3
StyleOf(e) == [w |-> e.style.width, den |-> e.den, cap |-> e.style.cap, join |-> e.style.join,
               miter |-> e.style.miter, t |-> [m |-> e.ctm.m, mden |-> e.ctm.mden]]
\* code points are in 1/1024 px
P64(p) == <<RoundDiv(p[1], 16), RoundDiv(p[2], 16)>>
NearPt(a, b) == Abs(a[1] - b[1]) <= TOLU /\ Abs(a[2] - b[2]) <= TOLU
\* u inside the prepared convex polygon pp dilated by TOLU
InOrOn(u, pp) == \A k \in 1..Len(pp.hp) : LET h == pp.hp[k] IN h[1] * u[1] + h[2] * u[2] - h[3] <= TOLU * h[4]
Match(sv, spp, cpts) ==
  /\ \A k \in 1..Len(sv) : \E j \in 1..Len(cpts) : NearPt(sv[k], cpts[j])
  /\ \A j \in 1..Len(cpts) : InOrOn(cpts[j], spp)
\* a polygon whose points are (up to rounding) on one line paints nothing: doubled area against TOLU times its extent
Extent(cpts) == LET xs == {cpts[k][1] : k \in 1..Len(cpts)}  ys == {cpts[k][2] : k \in 1..Len(cpts)}
                IN Max(SetMax(xs) - SetMin(xs), SetMax(ys) - SetMin(ys))
HasArea(cpts) == 2 * Abs(Area2(cpts, 1)) > 3 * TOLU * (Extent(cpts) + 1)
Check ==
  LET e == Rec[i] IN
  IF e.outcome # "ok" \/ ~("stroke_polys" \in DOMAIN e) \/ e.width_class # "pos" THEN PrintT(<<"SKIP", i, e.id>>)
  ELSE LET dashed == "dash" \in DOMAIN e.style
           K == IF dashed THEN e.k ELSE 1
           st == [StyleOf(e) EXCEPT !.w = e.style.width * K, !.den = e.den * K]
           sps0 == Subpaths(e.ops)
           ok == \A k \in 1..Len(sps0) : SubpathOK(sps0[k]) /\ (~dashed \/ SubpathKOK(sps0[k], K))
           \* a dashed stroke is the stroke of its dash pieces (Dash.tla), in coordinates scaled by K
           sps == IF dashed THEN DashedSubpaths(sps0, e.style.dash, e.style.dash_offset, K) ELSE sps0
           ps == Pieces(st, sps)
           spolys == {k \in 1..Len(ps) : ps[k].kind = "poly" /\ Prepared(ps[k].v).ok /\ HasArea(ps[k].v)}
           sdiscs == {k \in 1..Len(ps) : ps[k].kind = "disc"}
           anydisc == {k \in 1..Len(ps) : ps[k].kind \in {"disc", "freedisc"}}
           cs == e.stroke_polys
           cpts == [j \in 1..Len(cs) |-> [k \in 1..Len(cs[j].pts) |-> P64(cs[j].pts[k])]]
           straight == {j \in 1..Len(cs) : ~cs[j].curved /\ Len(cs[j].pts) >= 3 /\ HasArea(cpts[j])}
           curvedC == {j \in 1..Len(cs) : cs[j].curved /\ HasArea(cpts[j])}
           prep == [k \in 1..Len(ps) |-> IF k \in spolys THEN Prepared(ps[k].v) ELSE [kind |-> "none"]]
           missing == {k \in spolys : \A j \in straight : ~Match(ps[k].v, prep[k], cpts[j])}
           extra == {j \in straight : \A k \in spolys : ~Match(ps[k].v, prep[k], cpts[j])}
           \* a curved code piece: all its points within r + TOLU of the centre of some round piece
           InDisc(j, k) == \A q \in 1..Len(cpts[j]) :
                             LET dx == cpts[j][q][1] - ps[k].c[1]  dy == cpts[j][q][2] - ps[k].c[2]  rr == ps[k].r + TOLU + 1
                             IN Abs(dx) <= rr /\ Abs(dy) <= rr /\ dx * dx + dy * dy <= rr * rr
           \* the pieces are filled together under NonZero: they must all be wound the same way, or overlaps cancel
           signs == {Sgn(Area2(cpts[j], 1)) : j \in straight \cup curvedC}
           stray == {j \in curvedC : \A k \in anydisc : ~InDisc(j, k)}
           bare == {k \in sdiscs : ps[k].exact /\ \A j \in curvedC : ~(InDisc(j, k) /\ \E q \in 1..Len(cpts[j]) : NearPt(cpts[j][q], ps[k].c))}
       IN IF ~ok THEN PrintT(<<"SKIP", i, e.id>>)
          ELSE IF missing # {} \/ extra # {} \/ stray # {} \/ bare # {} \/ Cardinality(signs) > 1
               THEN PrintT(<<"DRIFT", i, e.id, missing, extra, stray, bare, signs>>)
                    /\ (IF "DEBUG" \in DOMAIN IOEnv THEN PrintT(<<"DBG", i, [k \in missing |-> ps[k]], [j \in extra |-> cpts[j]], [k \in bare |-> ps[k]]>>) ELSE TRUE)
          ELSE TRUE
=============================================================================
