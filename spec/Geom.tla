-------------------------------- MODULE Geom --------------------------------
(* Integer geometry: euclid Box2D rectangles with the library's semantics,  *)
(* lattice points, segments, winding numbers.                               *)
EXTENDS Fixed

(* A box is [x0, y0, x1, y1] (min corner, max corner), possibly inverted.   *)
Box(x0, y0, x1, y1) == [x0 |-> x0, y0 |-> y0, x1 |-> x1, y1 |-> y1]
BoxW(b) == b.x1 - b.x0
BoxH(b) == b.y1 - b.y0
\* euclid: is_empty <=> !(max.x > min.x && max.y > min.y)
BoxEmpty(b) == ~(b.x1 > b.x0 /\ b.y1 > b.y0)
\* euclid: intersection_unchecked = (max of mins, min of maxs), may be inverted
BoxMeet(a, b) == Box(Max(a.x0, b.x0), Max(a.y0, b.y0), Min(a.x1, b.x1), Min(a.y1, b.y1))
BoxShift(b, dx, dy) == Box(b.x0 + dx, b.y0 + dy, b.x1 + dx, b.y1 + dy)
InBox(b, x, y) == b.x0 <= x /\ x < b.x1 /\ b.y0 <= y /\ y < b.y1
SurfaceBox(w, h) == Box(0, 0, w, h)

(* Points are <<x, y>>.  Cross product of (b - a) and (c - a).              *)
Cross(a, b, c) == (b[1] - a[1]) * (c[2] - a[2]) - (b[2] - a[2]) * (c[1] - a[1])
Dot(a, b, c, d) == (b[1] - a[1]) * (d[1] - c[1]) + (b[2] - a[2]) * (d[2] - c[2])

\* q lies on the closed segment a-b
OnSegment(a, b, q) ==
  /\ Cross(a, b, q) = 0
  /\ Min(a[1], b[1]) <= q[1] /\ q[1] <= Max(a[1], b[1])
  /\ Min(a[2], b[2]) <= q[2] /\ q[2] <= Max(a[2], b[2])

(* A loop is a sequence of points, implicitly closed.  Its edges:           *)
LoopEdges(l) == [i \in 1..Len(l) |-> <<l[i], l[IF i = Len(l) THEN 1 ELSE i + 1]>>]

(* Winding number of a set of loops around the point q, for q not on any    *)
(* edge: half-open crossing rule on a ray towards +x.                       *)
EdgeWind(e, q) ==
  LET a == e[1]  b == e[2] IN
  IF a[2] <= q[2] /\ q[2] < b[2] /\ Cross(a, b, q) > 0 THEN 1
  ELSE IF b[2] <= q[2] /\ q[2] < a[2] /\ Cross(a, b, q) < 0 THEN -1
  ELSE 0
RECURSIVE SumWind(_, _, _)
SumWind(es, q, i) == IF i > Len(es) THEN 0 ELSE EdgeWind(es[i], q) + SumWind(es, q, i + 1)
LoopWind(l, q) == SumWind(LoopEdges(l), q, 1)
RECURSIVE LoopsWind(_, _, _)
LoopsWind(ls, q, i) == IF i > Len(ls) THEN 0 ELSE LoopWind(ls[i], q) + LoopsWind(ls, q, i + 1)
Winding(ls, q) == LoopsWind(ls, q, 1)
OnLoops(ls, q) == \E i \in 1..Len(ls) : \E k \in 1..Len(ls[i]) :
                     OnSegment(LoopEdges(ls[i])[k][1], LoopEdges(ls[i])[k][2], q)
InsideRule(rule, w) == IF rule = "EvenOdd" THEN w % 2 # 0 ELSE w # 0
=============================================================================
