------------------------------ MODULE Trace_Dash ------------------------------
(* Trace validation for C09: the pixels of a dashed stroke against the       *)
(* region of the dash pieces (Dash.tla) stroked as open polylines            *)
(* (Stroke.tla), margin 0.75 px.                                             *)
EXTENDS Dash, Json, IOUtils
Rec == ndJsonDeserialize(IOEnv.TRACE)
VARIABLE i
Init == i \in 1..Len(Rec)
Next == FALSE /\ UNCHANGED i
White == <<255, 255, 255, 255>>
Zero == <<0, 0, 0, 0>>
Check ==
  LET e == Rec[i] IN
  IF e.outcome # "ok" THEN PrintT(<<"BAD", i, e.id, "panic">>)
  ELSE LET K == e.k
           st == [w |-> e.style.width * K, den |-> e.den * K, cap |-> e.style.cap, join |-> e.style.join,
                  miter |-> e.style.miter, t |-> [m |-> e.ctm.m, mden |-> e.ctm.mden]]
           sps == Subpaths(e.ops)
           ok == \A k \in 1..Len(sps) : SubpathOK(sps[k]) /\ SubpathKOK(sps[k], K)
           dsp == DashedSubpaths(sps, e.style.dash, e.style.dash_offset, K)
           pcs == PreparedPieces(st, dsp)
           cls == [k \in 1..(e.w * e.h) |-> Classify(pcs, (k - 1) % e.w, (k - 1) \div e.w, 48)]
           badin == {k \in 1..(e.w * e.h) : cls[k] = "in" /\ e.pix[k] # White}
           badout == {k \in 1..(e.w * e.h) : cls[k] = "out" /\ e.pix[k] # Zero}
           nin == Cardinality({k \in 1..(e.w * e.h) : cls[k] = "in"})
           nout == Cardinality({k \in 1..(e.w * e.h) : cls[k] = "out"})
       IN IF ~ok THEN PrintT(<<"SKIP", i, e.id>>)
          ELSE IF badin # {} \/ badout # {} THEN PrintT(<<"BAD", i, e.id, badin, badout, Len(dsp)>>)
          ELSE (nin = 0 \/ nout = 0 \/ Len(dsp) < 2) \/ PrintT(<<"NT", i, nin, nout, Len(dsp)>>)
=============================================================================
