------------------------------- MODULE Raster -------------------------------
(* I level: the scan-line rasteriser of raqote (rasterizer.rs) and the       *)
(* supersampling mask blitter (blitter.rs MaskSuperBlitter), structured like *)
(* the code: one action per loop body.                                       *)
(*                                                                           *)
(*   AddEdge   Rasterizer::add_edge for the next polygon edge (lines only)   *)
(*   Insert    insert_starting_edges: insertion sort of the bucket's edges,  *)
(*             merge into the active list                                    *)
(*   Scan      scan_edges: winding accumulation, span rounding, blit_span    *)
(*   Step      step_edges: fullx += slope, drop finished edges               *)
(*   Sort      sort_edges (bubble sort), cur_y += 1                          *)
(*   Reset     Rasterizer::reset                                             *)
(*                                                                           *)
(* Arithmetic is the code's: Dot2 = quarter pixels, Dot16 = 16.16 pixels,    *)
(* slopes by truncating division, spans rounded with +2^13 >> 14.            *)
(* The refinement checked by MC_Raster: the accumulated mask is a member of  *)
(* Coverage.tla's allowed set for every pixel, bucket indices stay in range, *)
(* the active list is sorted whenever it is scanned, no mask byte overflows, *)
(* and after Reset the rasteriser is idle (C10).                             *)
EXTENDS Coverage

CONSTANTS W, H            \* surface size in pixels
VARIABLES poly,           \* input: loops in quarter pixels
          rule,           \* "NonZero" | "EvenOdd"
          pc,             \* "add" | "insert" | "scan" | "step" | "sort" | "reset" | "done"
          todo,           \* input edges <<start, end>> still to be added
          starts,         \* edge_starts: row -> sequence of edges (head = most recently added)
          active,         \* active edge list (sequence)
          cury,
          bnd,            \* [top, bottom, left, right] in pixels
          mask,           \* mask buffer of the blitter: function pixel index -> 0..255 (or more on overflow)
          mbox,           \* the blitter's rectangle <<x, y, w, h>> in pixels (rasteriser bounds at rasterize time)
          ovf             \* TRUE iff an unchecked u8 addition would have overflowed
vars == <<poly, rule, pc, todo, starts, active, cury, bnd, mask, mbox, ovf>>

HQ == 4 * H               \* height in sample rows
WQ == 4 * W
RECURSIVE InputEdges(_, _)
InputEdges(ls, i) ==
  IF i > Len(ls) THEN <<>>
  ELSE LET l == ls[i] IN
       [k \in 1..Len(l) |-> <<l[k], l[IF k = Len(l) THEN 1 ELSE k + 1]>>] \o InputEdges(ls, i + 1)

InitBounds == [top |-> H, bottom |-> 0, left |-> W, right |-> 0]
InitWith(p, r) ==
  /\ poly = p /\ rule = r
  /\ pc = "add" /\ todo = InputEdges(p, 1)
  /\ starts = [y \in 0..(HQ - 1) |-> <<>>]
  /\ active = <<>> /\ cury = 0 /\ bnd = InitBounds
  /\ mask = <<>> /\ mbox = <<0, 0, 0, 0>> /\ ovf = FALSE

(*------------------------------- add_edge --------------------------------*)
\* an active edge record
Edge(x2, y2, slope, fullx, w) == [x2 |-> x2, y2 |-> y2, slope |-> slope, fullx |-> fullx, w |-> w]
\* step an edge n times (cury < 0 loop)
RECURSIVE StepN(_, _)
StepN(e, n) == IF n <= 0 THEN e ELSE StepN([e EXCEPT !.fullx = @ + e.slope], n - 1)

AddEdge ==
  /\ pc = "add" /\ todo # <<>>
  /\ LET s0 == Head(todo)[1]  e0 == Head(todo)[2]
         swap == e0[2] < s0[2]
         s == IF swap THEN e0 ELSE s0
         e == IF swap THEN s0 ELSE e0
         w == IF swap THEN -1 ELSE 1
         x1 == s[1]  y1 == s[2]  x2 == e[1]  y2 == e[2]
         dropped == y2 < 0 \/ y1 >= HQ \/ y1 >= y2
         slope == IF y1 < y2 THEN TruncDiv((x2 - x1) * 16384, y2 - y1) ELSE 0
         ed0 == Edge(x2, y2, slope, x1 * 16384, w)
         ed == IF y1 < 0 THEN StepN(ed0, -y1) ELSE ed0
         row == IF y1 < 0 THEN 0 ELSE y1
         dropped2 == y1 < 0 /\ 0 >= y2
         nb == [top |-> Min(bnd.top, Shr(y1, 2)), bottom |-> Max(bnd.bottom, Shr(y2 + 3, 2)),
                left |-> Min(Min(bnd.left, Shr(x1, 2)), Shr(x2, 2)),
                right |-> Max(Max(bnd.right, Shr(x1 + 3, 2)), Shr(x2 + 3, 2))]
     IN /\ bnd' = IF dropped THEN bnd ELSE nb
        /\ starts' = IF dropped \/ dropped2 THEN starts ELSE [starts EXCEPT ![row] = <<ed>> \o @]
  /\ todo' = Tail(todo)
  /\ UNCHANGED <<poly, rule, pc, active, cury, mask, mbox, ovf>>

\* DrawTarget::fill: get_bounds, allocate the blitter, rasterize
GetBounds == <<Max(bnd.left, 0), Max(bnd.top, 0), Min(bnd.right, W), Min(bnd.bottom, H)>>
StartRaster ==
  /\ pc = "add" /\ todo = <<>>
  /\ LET b == GetBounds
         bw == b[3] - b[1]  bh == b[4] - b[2]
     IN IF bw > 0 /\ bh > 0
        THEN /\ mbox' = <<b[1], b[2], bw, bh>>
             /\ mask' = [k \in 0..(bw * bh) |-> 0]            \* one byte of padding
             /\ cury' = Max(4 * bnd.top, 0)
             /\ pc' = IF Max(4 * bnd.top, 0) < Min(4 * bnd.bottom, HQ) THEN "insert" ELSE "reset"
        ELSE /\ mbox' = <<0, 0, 0, 0>> /\ mask' = <<>> /\ cury' = cury /\ pc' = "reset"
  /\ UNCHANGED <<poly, rule, todo, starts, active, bnd, ovf>>

(*------------------------ insert_starting_edges ---------------------------*)
\* insert e into the sorted sequence s before the first element with fullx >= e.fullx
InsertSorted(s, e) ==
  LET k == IF \E i \in 1..Len(s) : e.fullx <= s[i].fullx
           THEN CHOOSE i \in 1..Len(s) : e.fullx <= s[i].fullx /\ \A j \in 1..(i - 1) : ~(e.fullx <= s[j].fullx)
           ELSE Len(s) + 1
  IN SubSeq(s, 1, k - 1) \o <<e>> \o SubSeq(s, k, Len(s))
RECURSIVE InsertAll(_, _)
InsertAll(s, es) == IF es = <<>> THEN s ELSE InsertAll(InsertSorted(s, Head(es)), Tail(es))
\* merge of two sorted lists as the code does it: each new edge goes before the first active
\* edge (at or after the previous insertion point) whose fullx is >= its own
RECURSIVE Merge(_, _, _)
Merge(act, new, from) ==
  IF new = <<>> THEN act
  ELSE LET e == Head(new)
           k == IF \E i \in from..Len(act) : e.fullx <= act[i].fullx
                THEN CHOOSE i \in from..Len(act) : e.fullx <= act[i].fullx /\ \A j \in from..(i - 1) : ~(e.fullx <= act[j].fullx)
                ELSE Len(act) + 1
       IN Merge(SubSeq(act, 1, k - 1) \o <<e>> \o SubSeq(act, k, Len(act)), Tail(new), k + 1)
Insert ==
  /\ pc = "insert"
  /\ active' = Merge(active, InsertAll(<<>>, starts[cury]), 1)
  /\ pc' = "scan"
  /\ UNCHANGED <<poly, rule, todo, starts, cury, bnd, mask, mbox, ovf>>

(*------------------------------ scan_edges -------------------------------*)
Inside(wn) == IF rule = "EvenOdd" THEN wn % 2 # 0 ELSE wn # 0
RoundQ(fx) == Shr(fx + 8192, 14)
\* spans <<x1, x2>> (quarter pixels) the scan emits, in order
RECURSIVE ScanFrom(_, _, _)
ScanFrom(i, wn, prevx) ==
  IF i > Len(active) THEN <<>>
  ELSE LET e == active[i]
           span == IF Inside(wn) THEN << <<RoundQ(prevx), RoundQ(e.fullx)>> >> ELSE <<>>
       IN IF Shr(e.fullx, 14) >= WQ THEN span
          ELSE span \o ScanFrom(i + 1, wn + e.w, e.fullx)
LeftOf == {i \in 1..Len(active) : \A j \in 1..i : active[j].fullx < 0}
Spans == LET n == Cardinality(LeftOf)
             wn0 == SumSeq([j \in 1..n |-> active[j].w])
         IN ScanFrom(n + 1, wn0, 0)

\* MaskSuperBlitter::blit_span on the mask (returns <<mask, overflow>>)
SatAdd8(a, b) == LET t == a + b IN t - Shr(t, 8)
BlitSpan(m, y, x1a, x2a) ==
  LET bx == mbox[1] * 4  by == mbox[2] * 4  bw == mbox[3]
      yy == y - by
      x1 == x1a - bx
      x2 == Min(x2a - bx, bw * 4)
      mx == 64 - Shr((yy % 4) + 1, 2)
      start == (yy \div 4) * bw
      lo == start + Shr(x1, 2)   hi == start + Shr(x2, 2)       \* slice lo..hi inclusive
      fb == x1 % 4   fe == x2 % 4
      len == hi - lo + 1
  IN IF len <= 0 THEN <<m, FALSE>>
     ELSE IF len = 1 THEN <<[m EXCEPT ![lo] = SatAdd8(@, (fe - fb) * 16)], FALSE>>
     ELSE LET m1 == [k \in DOMAIN m |->
                        IF k = lo THEN SatAdd8(m[k], (4 - fb) * 16)
                        ELSE IF k = hi THEN SatAdd8(m[k], fe * 16)
                        ELSE IF lo < k /\ k < hi THEN m[k] + mx ELSE m[k]]
          IN <<m1, \E k \in (lo + 1)..(hi - 1) : m[k] + mx > 255>>
RECURSIVE BlitAll(_, _, _)
BlitAll(m, sp, o) == IF sp = <<>> THEN <<m, o>>
                     ELSE LET r == BlitSpan(m, cury, Head(sp)[1], Head(sp)[2]) IN BlitAll(r[1], Tail(sp), o \/ r[2])
Scan ==
  /\ pc = "scan"
  /\ LET r == BlitAll(mask, Spans, ovf) IN mask' = r[1] /\ ovf' = r[2]
  /\ pc' = "step"
  /\ UNCHANGED <<poly, rule, todo, starts, active, cury, bnd, mbox>>

(*------------------------------ step_edges -------------------------------*)
RECURSIVE StepAll(_)
StepAll(s) == IF s = <<>> THEN <<>>
              ELSE LET e == [Head(s) EXCEPT !.fullx = @ + Head(s).slope]
                   IN (IF cury + 1 >= e.y2 THEN <<>> ELSE <<e>>) \o StepAll(Tail(s))
Step ==
  /\ pc = "step"
  /\ active' = StepAll(active)
  /\ pc' = "sort"
  /\ UNCHANGED <<poly, rule, todo, starts, cury, bnd, mask, mbox, ovf>>

(*------------------------------ sort_edges -------------------------------*)
\* one bubble pass, as the code's inner loop (swap when edge.fullx > next.fullx)
RECURSIVE BubblePass(_)
BubblePass(s) == IF Len(s) <= 1 THEN s
                 ELSE IF s[1].fullx > s[2].fullx THEN <<s[2]>> \o BubblePass(<<s[1]>> \o SubSeq(s, 3, Len(s)))
                 ELSE <<s[1]>> \o BubblePass(Tail(s))
RECURSIVE Bubble(_)
Bubble(s) == LET t == BubblePass(s) IN IF t = s THEN s ELSE Bubble(t)
Sort ==
  /\ pc = "sort"
  /\ active' = Bubble(active)
  /\ cury' = cury + 1
  /\ pc' = IF cury + 1 < Min(4 * bnd.bottom, HQ) THEN "insert" ELSE "reset"
  /\ UNCHANGED <<poly, rule, todo, starts, bnd, mask, mbox, ovf>>

(*--------------------------------- reset ---------------------------------*)
Reset ==
  /\ pc = "reset"
  /\ IF bnd.bottom < bnd.top THEN UNCHANGED <<starts, active, bnd>>
     ELSE LET s == Max(4 * bnd.top, 0)  e == Min(4 * bnd.bottom, HQ)
          IN /\ starts' = [y \in 0..(HQ - 1) |-> IF s <= y /\ y < e THEN <<>> ELSE starts[y]]
             /\ active' = <<>> /\ bnd' = InitBounds
  /\ pc' = "done"
  /\ UNCHANGED <<poly, rule, todo, cury, mask, mbox, ovf>>

Next == AddEdge \/ StartRaster \/ Insert \/ Scan \/ Step \/ Sort \/ Reset

(*------------------------------ invariants --------------------------------*)
\* every edge sits in a bucket of the surface (add_edge indexes edge_starts[cury])
Sorted(s) == \A i \in 1..(Len(s) - 1) : s[i].fullx <= s[i + 1].fullx
SortedWhenScanned == pc = "scan" => Sorted(active)
NoMaskOverflow == ~ovf /\ \A k \in DOMAIN mask : mask[k] <= 255
\* C10: after reset nothing is left
IdleAfterReset == pc = "done" =>
  /\ active = <<>> /\ \A y \in 0..(HQ - 1) : starts[y] = <<>>
  /\ bnd = InitBounds
\* refinement: the accumulated mask is an allowed coverage of the exact model
MaskAt(px, py) ==
  IF mbox[3] > 0 /\ mbox[1] <= px /\ px < mbox[1] + mbox[3] /\ mbox[2] <= py /\ py < mbox[2] + mbox[4]
  THEN mask[(py - mbox[2]) * mbox[3] + (px - mbox[1])] ELSE 0
RefinesCoverage == pc = "done" =>
  LET es == Edges(poly) IN
  \A px \in 0..(W - 1), py \in 0..(H - 1) : MaskAt(px, py) \in AllowedAlphaAA(es, rule, px, py)
=============================================================================
