----------------------------- MODULE CanvasImpl -----------------------------
(* I level: the clip stack, the layer stack and the index arithmetic of      *)
(* DrawTarget::composite and its blitters (draw_target.rs, blitter.rs).      *)
(*                                                                           *)
(* Clip masks are symbolic: a clip path is an identifier, a mask is the set  *)
(* of identifiers whose coverages have been multiplied into it.  What the    *)
(* code consults when it draws is only the TOP clip entry [rect, mask]; the  *)
(* specification (pstack) keeps every pushed clip.  A composite call is      *)
(* modelled by the set of accesses its blitter makes: for every pixel it     *)
(* touches, the destination buffer and index, the device position it         *)
(* believes that is, the shape-mask index and the clip-mask index.           *)
(*                                                                           *)
(* MC_CanvasImpl checks, for every properly nested history of pushes and     *)
(* pops followed by a draw:                                                  *)
(*   ClipRefines    top.rect and top.mask equal the intersection / the set   *)
(*                  of ALL pushed clips (C05)                                *)
(*   AccessesOK     every index is in range (C07), every touched pixel lies  *)
(*                  in rect /\ effective clip /\ destination (C02), each     *)
(*                  pixel of that region is touched exactly once, and the    *)
(*                  mask / clip bytes used are the ones of that very pixel   *)
(*                  (C03), also when the destination is a layer at an offset *)
(*                  (C06)                                                    *)
(* PINNED selects the code of the pinned commit for push_clip_rect and       *)
(* push_layer; LAYERFULL the repaired push_layer whose layer covers the      *)
(* whole surface, which is what makes pops that cross (a clip pushed before  *)
(* a layer popped while the layer is open) satisfy AccessesOK.               *)
EXTENDS Geom, TLC

CONSTANTS W, H, PINNED,
          LAYERFULL    \* a layer covers the whole surface (the repaired push_layer) instead of the clip bounds at push time
VARIABLES cstack,      \* implementation clip stack: sequence of [rect, mask] (mask = set of ids, or <<"none">>)
          pstack,      \* specification clip stack: sequence of [kind, rect] / [kind, id]
          lstack,      \* layer stack: sequence of [rect]  (both levels; the spec's layer is conceptually unbounded)
          phase,       \* "build" | "drawn"
          acc,         \* the accesses of the last composite call (set of records) or <<"panic">>
          call         \* the last composite call [rect, mrect, masked, dest]
vars == <<cstack, pstack, lstack, phase, acc, call>>

Surf == SurfaceBox(W, H)
NoMask == {"none"}
TopRect == IF cstack = <<>> THEN Surf ELSE cstack[Len(cstack)].rect
TopMask == IF cstack = <<>> THEN NoMask ELSE cstack[Len(cstack)].mask

(*------------------------------ clip stack -------------------------------*)
PushClipRect(r) ==
  /\ cstack' = Append(cstack, IF cstack = <<>> THEN [rect |-> r, mask |-> NoMask]
                              ELSE [rect |-> BoxMeet(TopRect, r), mask |-> IF PINNED THEN NoMask ELSE TopMask])
  /\ pstack' = Append(pstack, [kind |-> "rect", rect |-> r])
PushClipPath(id) ==
  \* the new mask is multiplied into the mask of the previous top only; the rect is clip_bounds()
  /\ cstack' = Append(cstack, [rect |-> TopRect, mask |-> (TopMask \ NoMask) \cup {id}])
  /\ pstack' = Append(pstack, [kind |-> "path", id |-> id])
PopClip ==
  /\ cstack # <<>>
  /\ cstack' = SubSeq(cstack, 1, Len(cstack) - 1) /\ pstack' = SubSeq(pstack, 1, Len(pstack) - 1)

\* the specification's effective clip
EffRect == LET F[i \in 0..Len(pstack)] ==
                 IF i = 0 THEN Surf ELSE IF pstack[i].kind = "rect" THEN BoxMeet(F[i - 1], pstack[i].rect) ELSE F[i - 1]
           IN F[Len(pstack)]
EffMask == {pstack[i].id : i \in {j \in 1..Len(pstack) : pstack[j].kind = "path"}}
\* what the code can see of it
ClipRefines ==
  /\ \A x \in 0..(W - 1), y \in 0..(H - 1) : InBox(BoxMeet(TopRect, Surf), x, y) = InBox(EffRect, x, y)
  /\ (TopMask \ NoMask) = EffMask

(*--------------------------------- layers --------------------------------*)
PushLayer ==
  LET cb == TopRect
      r == IF PINNED THEN cb
           ELSE IF LAYERFULL THEN Surf
           ELSE (IF BoxEmpty(BoxMeet(cb, Surf)) THEN Box(0, 0, 0, 0) ELSE BoxMeet(cb, Surf))
  IN lstack' = Append(lstack, [rect |-> r])
\* vec![0; (w * h) as usize]: a negative product cannot be allocated
LayerAllocOK(l) == BoxW(l.rect) * BoxH(l.rect) >= 0
BufLen(d) == IF d = 0 THEN W * H ELSE BoxW(lstack[d].rect) * BoxH(lstack[d].rect)
DestRect(d) == IF d = 0 THEN Surf ELSE lstack[d].rect

(*------------------------------- composite -------------------------------*)
(* composite(src, mask, mask_rect, rect, ..) onto destination d (0 = the     *)
(* surface, k = layer k): the accesses of the blitter chosen by              *)
(* choose_blitter, or "panic" when a slice index is out of range.            *)
Composite(rect, mrect, masked, d) ==
  LET cb == TopRect
      db == DestRect(d)
      r == BoxMeet(BoxMeet(BoxMeet(rect, cb), db), mrect)
      stride == BoxW(db)
      mw == BoxW(mrect)
      useClip == masked /\ TopMask # NoMask            \* (Some(mask), Some(clip mask)) arm
      rows == IF BoxEmpty(r) THEN {} ELSE r.y0..(r.y1 - 1)
      \* the pinned mask-less blitter hands its whole scratch row (W entries) to the row proc,
      \* which runs to the end of the shorter slice
      cols == IF BoxEmpty(r) THEN {}
              ELSE IF PINNED /\ ~masked THEN r.x0..(r.x0 + W - 1) ELSE r.x0..(r.x1 - 1)
      \* per row: mask slice [ms, me), dest start
      MS(y) == (y - mrect.y0) * mw + r.x0 - mrect.x0
      ME(y) == (y - mrect.y0) * mw + r.x1 - mrect.x0
      DS(y) == (y - db.y0) * stride + r.x0 - db.x0
      CS(y) == y * W + r.x0
      masklen == mw * BoxH(mrect)
      bad == \E y \in rows :
               \/ masked /\ (MS(y) < 0 \/ MS(y) > ME(y) \/ ME(y) > masklen)
               \/ DS(y) < 0 \/ DS(y) + (r.x1 - r.x0) > BufLen(d)
               \/ useClip /\ (CS(y) < 0 \/ CS(y) + (r.x1 - r.x0) > W * H)
  IN IF bad THEN {[panic |-> TRUE]}
     ELSE {[panic |-> FALSE, dest |-> d, di |-> DS(y) + (x - r.x0), x |-> x, y |-> y,
            mi |-> IF masked THEN MS(y) + (x - r.x0) ELSE -1,
            ci |-> IF useClip THEN CS(y) + (x - r.x0) ELSE -1,
            cm |-> IF useClip THEN TopMask ELSE NoMask] :
              x \in cols, y \in {yy \in rows : TRUE}} \ {a \in {[panic |-> FALSE, dest |-> d, di |-> DS(y) + (x - r.x0), x |-> x, y |-> y,
                                                           mi |-> IF masked THEN MS(y) + (x - r.x0) ELSE -1,
                                                           ci |-> IF useClip THEN CS(y) + (x - r.x0) ELSE -1,
                                                           cm |-> IF useClip THEN TopMask ELSE NoMask] : x \in cols, y \in rows} : a.di >= BufLen(d)}

\* a draw: fill with a mask (rect = mask_rect = the shape's bounds) or the mask-less
\* rectangle path (only taken when the clip stack is empty)
Draw(b, masked) ==
  /\ phase = "build" /\ (masked \/ cstack = <<>>)
  /\ (\A i \in 1..Len(lstack) : LayerAllocOK(lstack[i]))
  /\ LET d == Len(lstack)
         rr == IF masked THEN b ELSE BoxMeet(b, Surf)
     IN /\ (masked \/ ~BoxEmpty(rr))
        /\ acc' = Composite(rr, rr, masked, d)
        /\ call' = [rect |-> rr, mrect |-> rr, masked |-> masked, dest |-> d, pop |-> FALSE]
  /\ phase' = "drawn" /\ UNCHANGED <<cstack, pstack, lstack>>
\* pop_layer: composite the layer image through a surface-sized opacity mask
PopLayerDraw ==
  /\ phase = "build" /\ lstack # <<>> /\ (\A i \in 1..Len(lstack) : LayerAllocOK(lstack[i]))
  /\ LET l == lstack[Len(lstack)]
         d == Len(lstack) - 1
     IN /\ acc' = LET ls == SubSeq(lstack, 1, d) IN
                  \* the composite runs after the pop: destination is the parent
                  Composite(l.rect, Surf, TRUE, d)
        /\ call' = [rect |-> l.rect, mrect |-> Surf, masked |-> TRUE, dest |-> d, pop |-> TRUE]
  /\ phase' = "drawn" /\ UNCHANGED <<cstack, pstack, lstack>>

Init == cstack = <<>> /\ pstack = <<>> /\ lstack = <<>> /\ phase = "build" /\ acc = {} /\ call = <<>>

(*------------------------------- properties ------------------------------*)
NoPanic == \A a \in acc : ~a.panic
LayersAllocatable == \A i \in 1..Len(lstack) : LayerAllocOK(lstack[i])
\* the device pixels the specification lets this call touch
Region(c) == {<<x, y>> \in (0..(W - 1)) \X (0..(H - 1)) :
                 InBox(c.rect, x, y) /\ InBox(EffRect, x, y) /\ InBox(c.mrect, x, y)}
AccessesOK ==
  phase = "drawn" /\ NoPanic =>
    LET c == call
        db == DestRect(c.dest)
        \* the spec's layer is unbounded; pixels of the region that lie outside the layer buffer
        \* would be lost.  With properly nested pushes the region is inside the layer rect.
        reg == Region(c)
    IN /\ {<<a.x, a.y>> : a \in acc} = reg                                   \* exactly the region
       /\ Cardinality(acc) = Cardinality(reg)                                \* each pixel once
       /\ \A a \in acc :
            /\ a.di = (a.y - db.y0) * BoxW(db) + (a.x - db.x0)               \* the pixel's own slot
            /\ 0 <= a.x - db.x0 /\ a.x - db.x0 < BoxW(db)
            /\ c.masked => a.mi = (a.y - c.mrect.y0) * BoxW(c.mrect) + (a.x - c.mrect.x0)
            /\ (a.cm \ NoMask) = EffMask                                     \* all pushed paths clip it
            /\ (a.ci # -1) => a.ci = a.y * W + a.x                           \* with that pixel's clip byte
=============================================================================
