----------------------------- MODULE CurveEdgeP -----------------------------
(* P level for a curve edge: where the true quadratic through the edge's     *)
(* control points is on a sample row.  Coordinates in 1/1024 px (Dot2 * 256).*)
(* The curve is monotonic in y (y1 <= cy <= y2), so the row y = row/4 px     *)
(* meets it between two consecutive points of its 64-step de Casteljau       *)
(* polyline; the x position must lie in that chord's x range widened by the  *)
(* polyline's deviation bound and the tolerance.                             *)
EXTENDS CurveEdge

\* points in 1/64 px (Dot2 * 16)
Q64(E, i) ==
  LET a == (64 - i) * (64 - i)  b == 2 * i * (64 - i)  c == i * i
  IN <<(a * E.x1 + b * E.cx + c * E.x2) \div 256, (a * E.y1 + b * E.cy + c * E.y2) \div 256>>     \* * 16 / 4096
\* |B''| / (8 n^2), |B''| <= 2 |P0 - 2 P1 + P2|, n = 64, in 1/64 px; + 2 for the roundings
Eps64(E) == (2 * 16 * Max(Abs(E.x1 - 2 * E.cx + E.x2), Abs(E.y1 - 2 * E.cy + E.y2))) \div (8 * 64 * 64) + 2
Monotonic(E) == E.y1 <= E.cy /\ E.cy <= E.y2 /\ E.y1 < E.y2
\* squared distance from c to segment a-b (coordinates < 2^14)
DistSq(c, a, b) ==
  LET dx == b[1] - a[1]  dy == b[2] - a[2]
      ex == c[1] - a[1]  ey == c[2] - a[2]
      dd == dx * dx + dy * dy
      t == ex * dx + ey * dy
  IN IF dd = 0 \/ t <= 0 THEN ex * ex + ey * ey
     ELSE IF t >= dd THEN (c[1] - b[1]) * (c[1] - b[1]) + (c[2] - b[2]) * (c[2] - b[2])
     ELSE ex * ex + ey * ey - MulDivFloor(t, t, dd)
\* x16 is the Dot16 position on sample row `row`; T the tolerance in 1/64 px: the point lies within T
\* (plus the polyline's deviation bound) of the curve
OnCurve(E, row, x16, T) ==
  LET q == <<x16 \div 1024, row * 16>>
      r == T + Eps64(E)
  IN \E i \in 0..63 :
       LET a == Q64(E, i)  b == Q64(E, i + 1) IN
       /\ a[2] - r <= q[2] /\ q[2] <= b[2] + r
       /\ q[1] >= Min(a[1], b[1]) - r /\ q[1] <= Max(a[1], b[1]) + r
       /\ DistSq(q, a, b) <= r * r
\* the rows (as indices into xs, which starts at row E.y1) that are examined: every STRIDE-th and the last
BadRows(E, xs, T, stride) == {k \in {j \in 1..Len(xs) : j % stride = 1 \/ stride = 1 \/ j = Len(xs)} : ~OnCurve(E, E.y1 + k - 1, xs[k], T)}
=============================================================================
