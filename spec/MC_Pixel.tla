------------------------------ MODULE MC_Pixel ------------------------------
(* Design-level checks of Pixel.tla (C03, C18):                             *)
(*  - endpoint lemmas of the compositing primitives;                        *)
(*  - every blend mode, Lerp, OverIn, OverInIn and AlphaMul preserve        *)
(*    premultiplied validity on a boundary grid of channel values.          *)
(* A state is one (mode, source, destination, coverage, clip) tuple.        *)
EXTENDS Pixel, TLC, Env
Grid == IF EnvInt("GRID", 1) = 1 THEN {0, 1, 2, 63, 64, 127, 128, 129, 253, 254, 255} ELSE {0, 1, 127, 128, 254, 255}
Small == {0, 1, 127, 128, 254, 255}
Covs == {0, 1, 127, 128, 254, 255}
NONSEP == EnvInt("NONSEP", 0) = 1
VARIABLES mode, s, d, cov, clip
vars == <<mode, s, d, cov, clip>>
\* grey-ish pixels <<a, c, c, min(c+1, a)>> for the separable modes, full triples on a
\* smaller grid for the non-separable ones
PixA == {<<p[1], p[2], p[2], IF p[2] + 1 <= p[1] THEN p[2] + 1 ELSE p[2]>> : p \in {q \in Grid \X Grid : q[2] <= q[1]}}
PixB == {p \in Small \X Small \X Small \X Small : p[2] <= p[1] /\ p[3] <= p[1] /\ p[4] <= p[1]}
Init == /\ mode \in (IF NONSEP THEN NonSeparable ELSE PorterDuff \cup Separable)
        /\ s \in (IF NONSEP THEN PixB ELSE PixA)
        /\ d \in (IF NONSEP THEN PixB ELSE PixA)
        /\ cov \in (IF NONSEP THEN {255} ELSE Covs) /\ clip \in (IF NONSEP THEN {255} ELSE {0, 128, 255})
Next == FALSE /\ UNCHANGED vars

InRange(p) == \A c \in Chan : p[c] \in Byte
B == Blend(mode, s, d)
Endpoints ==
  /\ Lerp(d, B, 256) = B /\ Lerp(d, B, 0) = d
  /\ OverIn(Transparent, d, cov) = d
  /\ OverIn(s, d, 255) = Over(s, d)
  /\ OverInIn(s, d, 255, 255) = OverIn(s, d, 255)
  /\ OverInIn(s, d, cov, 255) = OverIn(s, d, cov)
  /\ (cov = 0 \/ clip = 0) => Composite(mode, s, d, cov, clip) = {d}
  /\ (cov = 255 /\ clip = 255 /\ mode # "SrcOver") => Composite(mode, s, d, cov, clip) = {B}
  /\ (mode = "Src" /\ cov = 255 /\ clip = 255) => Composite(mode, s, d, cov, clip) = {s}
  /\ (mode = "SrcOver" /\ s[1] = 255 /\ cov = 255 /\ clip = 255) => Composite(mode, s, d, cov, clip) = {s}
  /\ (mode = "SrcOver" /\ s = Transparent) => Composite(mode, s, d, cov, clip) = {d}
\* the blend result itself (what sw-composite's pack_argb32 debug-asserts)
BlendPremul == BlendDefined(mode, s, d) => (InRange(B) /\ Premul(B))
\* every value the specification allows after compositing
CompositePremul ==
  BlendDefined(mode, s, d) => \A p \in Composite(mode, s, d, cov, clip) : InRange(p) /\ Premul(p)
BlendBad == (~BlendDefined(mode, s, d) \/ (InRange(B) /\ Premul(B))) \/ PrintT(<<"NP", mode, s, d, B>>)
=============================================================================
