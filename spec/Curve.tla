------------------------------- MODULE Curve -------------------------------
(* Curved paths (P level), shared by C08 (fill of curved paths) and C16      *)
(* (flatten).  A path with QuadTo / CubicTo ops is given to the              *)
(* specification as a fine polyline F: every curve evaluated exactly by de   *)
(* Casteljau at t = i/16 in units of 1/1024 px (FU), which is exact integer  *)
(* arithmetic for control points on the half-pixel lattice under dyadic      *)
(* transforms; the distance between F and the true curve is bounded by       *)
(* EpsOf (second-difference bound) and added to every margin.                *)
EXTENDS Geom, PathSem

FU == 1024
NSTEP == 16

(* device control point in FU of user point p (units 1/den) under t = [m, mden]; *)
(* exact iff den * mden divides 1024                                             *)
DevFU(t, den, p) ==
  LET k == FU \div (den * t.mden)
  IN <<(p[1] * t.m[1] + p[2] * t.m[3] + t.m[5] * den) * k, (p[1] * t.m[2] + p[2] * t.m[4] + t.m[6] * den) * k>>
DevExactFU(t, den) == FU % (den * t.mden) = 0

\* quadratic Bezier at i/16: ((16-i)^2 P0 + 2 i (16-i) P1 + i^2 P2) / 256
QuadAt(p0, p1, p2, i) ==
  LET a == (16 - i) * (16 - i)  b == 2 * i * (16 - i)  c == i * i
  IN <<(a * p0[1] + b * p1[1] + c * p2[1]) \div 256, (a * p0[2] + b * p1[2] + c * p2[2]) \div 256>>
\* cubic Bezier at i/16: denominators 4096; rounded to the nearest FU
CubicAt(p0, p1, p2, p3, i) ==
  LET j == 16 - i
      a == j * j * j  b == 3 * i * j * j  c == 3 * i * i * j  d == i * i * i
      X == a * p0[1] + b * p1[1] + c * p2[1] + d * p3[1]
      Y == a * p0[2] + b * p1[2] + c * p2[2] + d * p3[2]
  IN <<(X + 2048) \div 4096, (Y + 2048) \div 4096>>
\* the points i = 1..16 of a curve (the start point is the previous end point)
QuadPts(p0, p1, p2) == [i \in 1..NSTEP |-> QuadAt(p0, p1, p2, i)]
CubicPts(p0, p1, p2, p3) == [i \in 1..NSTEP |-> CubicAt(p0, p1, p2, p3, i)]

\* bound, in FU, on the distance between the 16-segment polyline and the true curve:
\* |B''| / (8 n^2) with |B''| <= 2 |P0 - 2 P1 + P2| (quadratic), 6 max(...) (cubic); +1 rounding
Dd(a, b, c) == Max(Abs(a[1] - 2 * b[1] + c[1]), Abs(a[2] - 2 * b[2] + c[2]))
QuadEps(p0, p1, p2) == (2 * 2 * Dd(p0, p1, p2)) \div (8 * NSTEP * NSTEP) + 2
CubicEps(p0, p1, p2, p3) == (2 * 6 * Max(Dd(p0, p1, p2), Dd(p1, p2, p3))) \div (8 * NSTEP * NSTEP) + 3

(* Fine fill loops of a path: like PathSem.FillLoops with curves expanded.  *)
(* Points are device FU.  Returns [loops, eps].                             *)
RECURSIVE FineRec(_, _, _, _, _, _, _)
FineRec(ops, t, den, loops, cur, cs, eps) ==
  LET flush == IF Len(cur) >= 2 THEN Append(loops, cur) ELSE loops
      D(p) == DevFU(t, den, p) IN
  IF ops = <<>> THEN [loops |-> flush, eps |-> eps]
  ELSE LET op == Head(ops) IN
       CASE Kind(op) = "M" -> FineRec(Tail(ops), t, den, flush, <<D(EndPoint(op))>>, CursorAfter(cs, op), eps)
         [] Kind(op) = "Z" -> FineRec(Tail(ops), t, den, flush,
                                      IF cs.start = <<>> THEN <<>> ELSE <<D(cs.start)>>, CursorAfter(cs, op), eps)
         [] Kind(op) = "L" -> FineRec(Tail(ops), t, den, loops,
                                      IF cur = <<>> THEN <<D(EndPoint(op))>> ELSE Append(cur, D(EndPoint(op))),
                                      CursorAfter(cs, op), eps)
         [] Kind(op) = "Q" ->
              LET p0 == D(StartOf(cs, op))  p1 == D(<<op[2], op[3]>>)  p2 == D(<<op[4], op[5]>>)
                  base == IF cur = <<>> THEN <<p0>> ELSE cur
              IN FineRec(Tail(ops), t, den, loops, base \o QuadPts(p0, p1, p2), CursorAfter(cs, op),
                         Max(eps, QuadEps(p0, p1, p2)))
         [] Kind(op) = "C" ->
              LET p0 == D(StartOf(cs, op))  p1 == D(<<op[2], op[3]>>)  p2 == D(<<op[4], op[5]>>)  p3 == D(<<op[6], op[7]>>)
                  base == IF cur = <<>> THEN <<p0>> ELSE cur
              IN FineRec(Tail(ops), t, den, loops, base \o CubicPts(p0, p1, p2, p3), CursorAfter(cs, op),
                         Max(eps, CubicEps(p0, p1, p2, p3)))
FineLoops(ops, t, den) == FineRec(Expand(ops), t, den, <<>>, <<>>, NoCursor, 1)

(* Fine stroke subpaths: like FineLoops, but every subpath keeps its closed flag  *)
(* (a closed subpath gets its start point appended so that its outline is one    *)
(* open point list) and a drawing op after Close starts a new subpath.           *)
RECURSIVE FineSubRec(_, _, _, _, _, _, _)
FineSubRec(ops, t, den, acc, cur, cs, eps) ==
  LET flush(cl) == IF Len(cur) >= 2 THEN Append(acc, [pts |-> IF cl THEN Append(cur, cur[1]) ELSE cur, closed |-> cl]) ELSE acc
      D(p) == DevFU(t, den, p) IN
  IF ops = <<>> THEN [subs |-> flush(FALSE), eps |-> eps]
  ELSE LET op == Head(ops) IN
       CASE Kind(op) = "M" -> FineSubRec(Tail(ops), t, den, flush(FALSE), <<D(EndPoint(op))>>, CursorAfter(cs, op), eps)
         [] Kind(op) = "Z" -> FineSubRec(Tail(ops), t, den, flush(TRUE),
                                         IF cs.start = <<>> THEN <<>> ELSE <<D(cs.start)>>, CursorAfter(cs, op), eps)
         [] Kind(op) = "L" -> FineSubRec(Tail(ops), t, den, acc,
                                         IF cur = <<>> THEN <<D(EndPoint(op))>> ELSE Append(cur, D(EndPoint(op))),
                                         CursorAfter(cs, op), eps)
         [] Kind(op) = "Q" ->
              LET p0 == D(StartOf(cs, op))  p1 == D(<<op[2], op[3]>>)  p2 == D(<<op[4], op[5]>>)
                  base == IF cur = <<>> THEN <<p0>> ELSE cur
              IN FineSubRec(Tail(ops), t, den, acc, base \o QuadPts(p0, p1, p2), CursorAfter(cs, op),
                            Max(eps, QuadEps(p0, p1, p2)))
         [] Kind(op) = "C" ->
              LET p0 == D(StartOf(cs, op))  p1 == D(<<op[2], op[3]>>)  p2 == D(<<op[4], op[5]>>)  p3 == D(<<op[6], op[7]>>)
                  base == IF cur = <<>> THEN <<p0>> ELSE cur
              IN FineSubRec(Tail(ops), t, den, acc, base \o CubicPts(p0, p1, p2, p3), CursorAfter(cs, op),
                            Max(eps, CubicEps(p0, p1, p2, p3)))
\* repeated points are dropped (zero-length segments are ignored by the stroker) and a subpath
\* that is a single point strokes nothing
RECURSIVE DedupPts(_)
DedupPts(s) == IF Len(s) <= 1 THEN s ELSE IF s[1] = s[2] THEN DedupPts(Tail(s)) ELSE <<s[1]>> \o DedupPts(Tail(s))
FineSubpaths(ops, t, den) ==
  LET r == FineSubRec(Expand(ops), t, den, <<>>, <<>>, NoCursor, 1)
      d == [k \in 1..Len(r.subs) |-> [pts |-> DedupPts(r.subs[k].pts), closed |-> r.subs[k].closed]]
      keep == {k \in 1..Len(d) : Len(d[k].pts) >= 2}
      RECURSIVE Pick(_)
      Pick(S) == IF S = {} THEN <<>> ELSE LET m == SetMin(S) IN <<d[m]>> \o Pick(S \ {m})
  IN [subs |-> Pick(keep), eps |-> r.eps]

(*------------------------------ distances --------------------------------*)
(* squared distance from c to segment a-b (all differences < 46340)         *)
DistSq(c, a, b) ==
  LET dx == b[1] - a[1]  dy == b[2] - a[2]
      ex == c[1] - a[1]  ey == c[2] - a[2]
      dd == dx * dx + dy * dy
      t == ex * dx + ey * dy
  IN IF dd = 0 \/ t <= 0 THEN ex * ex + ey * ey
     ELSE IF t >= dd THEN (c[1] - b[1]) * (c[1] - b[1]) + (c[2] - b[2]) * (c[2] - b[2])
     ELSE ex * ex + ey * ey - MulDivFloor(t, t, dd)
\* is c farther than r from the segment?  (bounding-box shortcut first; very long segments
\* are tested in units 8 times coarser with the rounding added to r, which keeps the test
\* sound and the 31-bit arithmetic safe)
FarFromSeg(c, a, b, r) ==
  \/ c[1] < Min(a[1], b[1]) - r \/ c[1] > Max(a[1], b[1]) + r
  \/ c[2] < Min(a[2], b[2]) - r \/ c[2] > Max(a[2], b[2]) + r
  \/ IF Abs(b[1] - a[1]) + Abs(b[2] - a[2]) < 16000 /\ Abs(c[1] - a[1]) + Abs(c[2] - a[2]) < 30000
     THEN DistSq(c, a, b) > r * r
     ELSE LET S(p) == <<p[1] \div 8, p[2] \div 8>>  rr == r \div 8 + 3
          IN Abs(c[1] - a[1]) + Abs(c[2] - a[2]) < 240000 /\ DistSq(S(c), S(a), S(b)) > rr * rr
FarFromLoop(c, l, r) == \A i \in 1..Len(l) : FarFromSeg(c, l[i], l[IF i = Len(l) THEN 1 ELSE i + 1], r)
FarFromLoops(c, ls, r) == \A k \in 1..Len(ls) : FarFromLoop(c, ls[k], r)
\* open polyline variants
FarFromPolyline(c, l, r) == \A i \in 1..(Len(l) - 1) : FarFromSeg(c, l[i], l[i + 1], r)
NearPolyline(c, l, r) == \E i \in 1..(Len(l) - 1) : ~FarFromSeg(c, l[i], l[i + 1], r)

(* C04 for curved paths stroked with round joins: the stroke is the set of points  *)
(* within half the width of the outline (round caps) or of its interior (butt   *)
(* caps: the zones around open ends are left open).  hw = half width in FU,     *)
(* margin in FU (the property's 1 px for curved paths).  The pixel square lies   *)
(* within sqrt(1/2) px of its centre.                                            *)
HalfDiag == 725          \* ceil(sqrt(1/2) * 1024)
NearSubs(c, subs, r) == \E k \in 1..Len(subs) : NearPolyline(c, subs[k].pts, r)
FarSubs(c, subs, r) == \A k \in 1..Len(subs) : FarFromPolyline(c, subs[k].pts, r)
OpenEnds(subs) == UNION {IF subs[k].closed THEN {} ELSE {subs[k].pts[1], subs[k].pts[Len(subs[k].pts)]} : k \in 1..Len(subs)}
ClassifyTube(fs, hw, cap, margin, px, py) ==
  LET c == <<px * FU + 512, py * FU + 512>>
      rin == hw - margin - fs.eps - HalfDiag
      rout == hw + margin + fs.eps + HalfDiag
      \* square caps reach sqrt(2) * hw from the end point
      nearEnd == \E e \in OpenEnds(fs.subs) :
                   (c[1] - e[1]) * (c[1] - e[1]) + (c[2] - e[2]) * (c[2] - e[2]) <= (2 * hw + margin + HalfDiag) * (2 * hw + margin + HalfDiag)
  IN IF cap # "Round" /\ nearEnd THEN "free"
     ELSE IF rin > 0 /\ NearSubs(c, fs.subs, rin) THEN "in"
     ELSE IF FarSubs(c, fs.subs, rout) THEN "out"
     ELSE "free"

(* C08: classification of pixel (px, py) against fine loops: "in" = inside   *)
(* by the rule and farther than 1 + sqrt(1/2) px (+ eps) from the outline,   *)
(* "out" = outside and as far, "free" otherwise.                             *)
Reach == 1749         \* ceil((1 + sqrt(1/2)) * 1024)
ClassifyFill(fl, rule, px, py) ==
  LET c == <<px * FU + 512, py * FU + 512>>
      r == Reach + fl.eps
  IN IF ~FarFromLoops(c, fl.loops, r) THEN "free"
     ELSE IF InsideRule(rule, Winding(fl.loops, c)) THEN "in" ELSE "out"
=============================================================================
