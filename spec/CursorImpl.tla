----------------------------- MODULE CursorImpl -----------------------------
(* I level: the three cursor machines of the code that turn a sequence of   *)
(* path ops into edges, transcribed statement by statement -                *)
(*   Fill : DrawTarget::apply_path with move_to / line_to / quad_to /       *)
(*          cubic_to / close (draw_target.rs) - the edges handed to         *)
(*          Rasterizer::add_edge, used by fill and push_clip (C01, C08,     *)
(*          C10);                                                           *)
(*   Flat : Path::flatten (path_builder.rs) - cur_pt / start_pt and the     *)
(*          point every curve is flattened from (C16);                      *)
(*   Hit  : the WindState walk of Path::contains_point over the flattened   *)
(*          path (C17).                                                     *)
(* None is <<>>.  A state is a record; one op is one step.  An edge is      *)
(* <<from, to, curved>>; how a curve is subdivided is below this level      *)
(* (CurveEdge.tla, Flatten.tla): here a curve is the chord from where the   *)
(* machine starts it to its end point, and a flattened curve is the single  *)
(* LineTo to its end point.                                                 *)
(* The `v` parameters select earlier behaviour of the code, which MC_Cursor *)
(* must reject: "close-none" / "no-moveto" for flatten (before 8486afa /    *)
(* before cad0158 - the latter was found by MC_Cursor.FlatFillAgree),       *)
(* pinned = TRUE for contains_point (before a0c35e8); a stale initial       *)
(* state for fill (before 5da1806).                                         *)
EXTENDS PathSem, TLC

None == <<>>

(* ---------------- Fill: DrawTarget::apply_path ---------------- *)
FillInit == [cur |-> None, first |-> None, edges |-> <<>>]
\* fn close
FillClose(s) ==
  [cur |-> s.first, first |-> s.first,
   edges |-> IF s.first # None /\ s.cur # None THEN Append(s.edges, <<s.cur, s.first, FALSE>>) ELSE s.edges]
\* fn line_to / quad_to / cubic_to: without a current point the subpath starts at the op's first point
FillDraw(s, op) ==
  LET p0 == IF Kind(op) = "L" THEN EndPoint(op) ELSE FirstCtrl(op)
      s1 == IF s.cur = None THEN [s EXCEPT !.cur = p0, !.first = p0] ELSE s
  IN [cur |-> EndPoint(op), first |-> s1.first,
      edges |-> Append(s1.edges, <<s1.cur, EndPoint(op), Kind(op) # "L">>)]
FillStep(s, op) ==
  CASE Kind(op) = "M" -> LET c == FillClose(s) IN [cur |-> EndPoint(op), first |-> EndPoint(op), edges |-> c.edges]
    [] Kind(op) = "Z" -> FillClose(s)
    [] OTHER -> FillDraw(s, op)
\* "make sure the path is closed"
FillFinish(s) == FillClose(s)
RECURSIVE FillRunRec(_, _)
FillRunRec(s, ops) == IF ops = <<>> THEN s ELSE FillRunRec(FillStep(s, Head(ops)), Tail(ops))
\* apply_path starts every path without a current point; the pinned commit kept the previous path's
FillRun(ops) == FillFinish(FillRunRec(FillInit, Expand(ops)))
FillRunFrom(s0, ops) == FillFinish(FillRunRec(s0, Expand(ops)))

(* ---------------- Flat: Path::flatten ---------------- *)
FlatInit == [cur |-> None, start |-> None, out |-> <<>>, from |-> <<>>]
\* `from` collects, per curve, the point it was flattened from (observable in the output's geometry)
\* v = "ok" (repaired), "close-none" (Close forgets the current point), "no-moveto" (a subpath
\* begun by a curve does not keep its starting point in the output)
FlatStep(s, op, v) ==
  CASE Kind(op) = "M" -> [s EXCEPT !.cur = EndPoint(op), !.start = EndPoint(op), !.out = Append(@, op)]
    [] Kind(op) = "L" -> [s EXCEPT !.start = IF s.cur = None THEN EndPoint(op) ELSE @, !.cur = EndPoint(op), !.out = Append(@, op)]
    [] Kind(op) = "Z" -> [s EXCEPT !.cur = IF v = "close-none" THEN None ELSE s.start, !.out = Append(@, op)]
    [] OTHER -> LET st == IF s.cur = None THEN FirstCtrl(op) ELSE s.cur
                IN [s EXCEPT !.start = IF s.cur = None THEN FirstCtrl(op) ELSE @,
                             !.cur = EndPoint(op),
                             !.from = Append(@, st),
                             !.out = (IF s.cur = None /\ v # "no-moveto" THEN Append(@, <<"M", st[1], st[2]>>) ELSE @)
                                     \o << <<"L", EndPoint(op)[1], EndPoint(op)[2]>> >>]
RECURSIVE FlatRunRec(_, _, _)
FlatRunRec(s, ops, v) == IF ops = <<>> THEN s ELSE FlatRunRec(FlatStep(s, Head(ops), v), Tail(ops), v)
FlatRun(ops, v) == FlatRunRec(FlatInit, Expand(ops), v)

(* ---------------- Hit: contains_point's walk over M / L / Z ---------------- *)
HitInit == [cur |-> None, first |-> None, edges |-> <<>>]
HitClose(s, pinned) ==
  [cur |-> IF pinned THEN s.cur ELSE s.first, first |-> s.first,
   edges |-> IF s.first # None /\ s.cur # None THEN Append(s.edges, <<s.cur, s.first, FALSE>>) ELSE s.edges]
HitStep(s, op, pinned) ==
  CASE Kind(op) = "M" -> LET c == HitClose(s, pinned) IN [cur |-> EndPoint(op), first |-> EndPoint(op), edges |-> c.edges]
    [] Kind(op) = "Z" -> HitClose(s, pinned)
    [] Kind(op) = "L" -> [cur |-> EndPoint(op),
                          first |-> IF s.cur = None THEN EndPoint(op) ELSE s.first,
                          edges |-> IF s.cur # None THEN Append(s.edges, <<s.cur, EndPoint(op), FALSE>>) ELSE s.edges]
RECURSIVE HitRunRec(_, _, _)
HitRunRec(s, ops, pinned) == IF ops = <<>> THEN s ELSE HitRunRec(HitStep(s, Head(ops), pinned), Tail(ops), pinned)
HitRun(flatops, pinned) == HitClose(HitRunRec(HitInit, flatops, pinned), pinned)

(* ---------------- P level: the edges PathSem prescribes ---------------- *)
\* every drawing op runs from StartOf to its end point; MoveTo, Close and the end of the path
\* close the open subpath (cur -> start) when there is one
PClose(cs, edges) == IF cs.cur # None /\ cs.start # None THEN Append(edges, <<cs.cur, cs.start, FALSE>>) ELSE edges
RECURSIVE PEdgesRec(_, _, _)
PEdgesRec(ops, cs, edges) ==
  IF ops = <<>> THEN PClose(cs, edges)
  ELSE LET op == Head(ops) IN
       IF Kind(op) \in {"M", "Z"} THEN PEdgesRec(Tail(ops), CursorAfter(cs, op), PClose(cs, edges))
       ELSE PEdgesRec(Tail(ops), CursorAfter(cs, op), Append(edges, <<StartOf(cs, op), EndPoint(op), Kind(op) # "L">>))
PEdges(ops) == PEdgesRec(Expand(ops), NoCursor, <<>>)
RECURSIVE PCursor(_, _)
PCursor(cs, ops) == IF ops = <<>> THEN cs ELSE PCursor(CursorAfter(cs, Head(ops)), Tail(ops))

(* net signed edge counts: what the winding number of any point depends on. *)
(* Degenerate edges and pairs of opposite edges contribute nothing.         *)
Net(edges, a, b) ==
  LET n(x, y) == Len(SelectSeq(edges, LAMBDA g : g[1] = x /\ g[2] = y)) IN n(a, b) - n(b, a)
PointsOf(edges) == {edges[k][1] : k \in 1..Len(edges)} \cup {edges[k][2] : k \in 1..Len(edges)}
SameNet(e1, e2) ==
  \A a \in PointsOf(e1) \cup PointsOf(e2), b \in PointsOf(e1) \cup PointsOf(e2) : a = b \/ Net(e1, a, b) = Net(e2, a, b)
\* the loops of PathSem.FillLoops as edges (polyline paths)
LoopsAsEdges(loops) ==
  LET le(l) == [k \in 1..Len(l) |-> <<l[k], l[IF k = Len(l) THEN 1 ELSE k + 1], FALSE>>]
      RECURSIVE cat(_)
      cat(k) == IF k > Len(loops) THEN <<>> ELSE le(loops[k]) \o cat(k + 1)
  IN cat(1)
Strip(edges) == [k \in 1..Len(edges) |-> <<edges[k][1], edges[k][2]>>]
=============================================================================
