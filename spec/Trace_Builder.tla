---------------------------- MODULE Trace_Builder ----------------------------
(* Trace validation for C20.  fam = "builder": the ops returned by          *)
(* PathBuilder::finish and by Path::transform against Builder.tla.          *)
(* fam = "arc": the structure, radius, direction and extent of the curve    *)
(* emitted by PathBuilder::arc.                                             *)
EXTENDS Builder, TLC, Json, IOUtils
Rec == ndJsonDeserialize(IOEnv.TRACE)
VARIABLE i
Init == i \in 1..Len(Rec)
Next == FALSE /\ UNCHANGED i

BuilderBad(e) ==
  LET m == e.transform.m  mden == e.transform.mden
      exactT == 1024 % (e.den * mden) = 0
      w1 == IF e.set_evenodd THEN "EvenOdd" ELSE "NonZero"
      arcs == HasArc(e.calls)
  IN IF e.finish_winding # "NonZero" THEN "finish-winding"
     ELSE IF arcs /\ ~MatchBuilt(e.calls, e.built, e.den) THEN "built-ops"
     ELSE IF ~arcs /\ e.built # ScaleOps(Built(e.calls), e.den) THEN "built-ops"
     ELSE IF e.transformed_winding # w1 THEN "transform-winding"
     ELSE IF Kinds(e.transformed) # Kinds(e.built) THEN "transform-structure"
     ELSE IF ~arcs /\ exactT /\ e.transformed # MapOps(Built(e.calls), m, e.den, mden) THEN "transform-points"
     ELSE "ok"

StartQuad(d) == IF d[1] > 0 /\ d[2] >= 0 THEN 0 ELSE IF d[1] <= 0 /\ d[2] > 0 THEN 1
                ELSE IF d[1] < 0 /\ d[2] <= 0 THEN 2 ELSE 3
\* allowed numbers of axis crossings for a clockwise sweep of quarters * 90 + angle(sd) from ds
CrossRange(ds, quarters, sd) ==
  IF quarters >= 4 THEN <<3, 5>>
  ELSE LET a == StartQuad(ds)
           rho == DirMul(ds, DirConj(QuarterDir(a)))
           sum == DirMul(rho, sd)
           zero == OnAxis(rho) /\ sd[2] = 0            \* rho + theta_w = 0
           over == sum[1] < 0                          \* rho + theta_w > 90
           lo == quarters + (IF over THEN 1 ELSE 0) - (IF zero /\ quarters > 0 THEN 1 ELSE 0)
           endOnAxis == OnAxis(DirMul(DirMul(ds, QuarterDir(quarters)), sd))
           hi == lo + (IF OnAxis(rho) THEN 1 ELSE 0) + (IF endOnAxis THEN 1 ELSE 0)
       IN <<Max(lo, 0), hi>>

ArcBad(e) ==
  LET ks == e.kinds
      n == Len(ks)
      off == IF e.pre_move THEN 1 ELSE 0
      sign == e.sign
      ds == e.start_dir
      sd == e.sweep_dir
      tol == (e.r1024 * 5) \div 1000 + 3
      ss == e.samples
      dsm == IF sign > 0 THEN ds ELSE DirConj(ds)
      ssm == IF sign > 0 THEN ss ELSE [k \in 1..Len(ss) |-> <<ss[k][1], -ss[k][2]>>]
      cr == CrossRange(dsm, e.quarters, sd)
      ac == AxisCross(ssm, 1, -1)
      zeroSweep == e.quarters = 0 /\ sd[2] = 0
  IN IF n < off + 1 \/ (e.pre_move /\ ks[1] # "M") \/ ks[off + 1] # "L" THEN "first-op-not-line"
     ELSE IF \E k \in (off + 2)..n : ks[k] # "Q" THEN "not-quads"
     ELSE IF ~NearDir(e.first_line, e.r1024, ds, tol) THEN "line-not-to-arc-start"
     ELSE IF \E k \in 1..Len(ss) : ~RadiusOK(ss[k], e.r1024) THEN "radius"
     ELSE IF e.r1024 = 0 THEN "ok"
     ELSE IF Len(ss) > 0 /\ ~NearDir(ss[1], e.r1024, ds, tol) THEN "start-point"
     ELSE IF Len(ss) > 0 /\ ~NearDir(ss[Len(ss)], e.r1024, EndDir(ds, sign, e.quarters, sd), tol) THEN "end-point"
     ELSE IF ~zeroSweep /\ Len(ss) < 2 THEN "no-curve"
     ELSE IF ~TurnsOneWay(ss, sign) THEN "direction"
     ELSE IF ac < cr[1] \/ ac > cr[2] THEN "extent"
     ELSE "ok"

Check ==
  LET e == Rec[i] IN
  IF e.outcome # "ok" THEN PrintT(<<"BAD", i, e.id, "panic">>)
  ELSE LET v == IF e.fam = "builder" THEN BuilderBad(e) ELSE ArcBad(e)
       IN IF v # "ok" THEN PrintT(<<"BAD", i, e.id, v>>)
          ELSE (e.fam = "arc" /\ e.quarters = 0 /\ e.sweep_dir[2] = 0) \/ (e.fam = "builder" /\ Len(e.calls) = 0) \/ PrintT(<<"NT", i>>)
=============================================================================
