INIT Init
NEXT Next
INVARIANT FillCursor
INVARIANT FillEdges
INVARIANT FillLoopsAgree
INVARIANT FlatCursor
INVARIANT FlatFrom
INVARIANT FlatFillAgree
INVARIANT HitAgree
INVARIANT OutIsFlat
CHECK_DEADLOCK FALSE
