---------------------------- MODULE Trace_NoPanic ----------------------------
(* C07 on rendered geometry families: every recorded scenario (random paths  *)
(* with decimal control points, arcs, arbitrary well-conditioned transforms, *)
(* filled, clipped or stroked) must have returned normally - outcome "ok",   *)
(* not a panic (debug assertions and overflow checks are on), an abort or a  *)
(* time-out.  All of them lie inside the property's domain: coordinates      *)
(* within a few dozen pixels, positive widths, invertible transforms.        *)
EXTENDS TLC, Json, IOUtils, Sequences, Naturals
Rec == ndJsonDeserialize(IOEnv.TRACE)
VARIABLE i
Init == i \in 1..Len(Rec)
Next == FALSE /\ UNCHANGED i
Check == LET e == Rec[i] IN
         IF e.outcome # "ok" THEN PrintT(<<"BAD", i, e.id, e.outcome>>) ELSE PrintT(<<"NT", i>>)
=============================================================================
