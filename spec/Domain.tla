------------------------------- MODULE Domain -------------------------------
(* C07: the "provided ..." clause of the property as a predicate over a      *)
(* call and the current transform.  Values are integers (user units), pairs  *)
(* <<n, d>> (rationals) or tokens ("NaN", "Inf", "Max", ...).  Only the      *)
(* clauses that the generators can violate are spelled out: device-space     *)
(* geometry (control points included, grown by the stroke outset) within     *)
(* +-4000 px, and fewer than 10^5 dashes along a dashed outline.             *)
EXTENDS Canvas, TLC

\* TLC cannot ask "is this value an integer" of a string or a tuple; the printed form tells
First(v) == SubSeq(ToString(v), 1, 1)
IsTok(v) == First(v) = "\""
IsRat(v) == First(v) = "<"
IsInt(v) == ~IsTok(v) /\ ~IsRat(v)
\* conservative integer bounds of a numeric argument: <<lo, hi>>, or <<0, -1>> when it is not finite
Bounds(v) == IF IsInt(v) THEN <<v, v>>
             ELSE IF IsTok(v) THEN (IF v \in {"-0", "MinPos", "-MinPos", "Eps"} THEN <<-1, 1>> ELSE <<0, -1>>)
             ELSE <<FloorDiv(v[1], v[2]), CeilDiv(v[1], v[2])>>
Finite(v) == LET b == Bounds(v) IN b[1] <= b[2]
Limit == 4000

\* all coordinates of a path are plain integers
PathInts(ops) == \A i \in 1..Len(ops) : \A j \in 2..Len(ops[i]) : (ops[i][1] = "A" /\ j >= 5) \/ IsInt(ops[i][j])
\* device bounding box (px) of the path's points under ctm, grown by g user units (integer)
GeomOK(ops, t, lat, g) ==
  LET P == PathPoints(Expand(ops))
  IN IF P = {} THEN TRUE
     ELSE IF ~lat THEN \A p \in P : Abs(p[1]) + g <= 1000 /\ Abs(p[2]) + g <= 1000
     ELSE LET Q == GrowPts(P, g)
              b == DevBBox(t, 1, Q)
          IN b.x0 >= -Limit /\ b.y0 >= -Limit /\ b.x1 <= Limit /\ b.y1 <= Limit
\* stroke outset: half the width times max(miter limit, sqrt 2), rounded up; 0 when the width disables the stroke
Outset(style) ==
  LET w == style.width
      ml == IF IsInt(style.miter) THEN style.miter ELSE CeilDiv(style.miter[1], style.miter[2])
  IN IF ~Finite(w) \/ Bounds(w)[2] <= 0 THEN 0 ELSE CeilDiv(Bounds(w)[2] * Max(ml, 2), 2)
\* length of the outline is below 8 * Limit * number of ops; the period of the dash array
DashCountOK(style, ops) ==
  LET d == style.dash IN
  IF d = <<>> THEN TRUE
  ELSE IF \E i \in 1..Len(d) : ~Finite(d[i]) \/ Bounds(d[i])[1] < 0 THEN TRUE       \* disabled, rejected or infinite period
  ELSE LET per == SumSeq([i \in 1..Len(d) |-> Bounds(d[i])[1]])
           P == PathPoints(Expand(ops))
           span == IF P = {} THEN 0 ELSE 4 * (SetMax({Abs(p[1]) : p \in P}) + SetMax({Abs(p[2]) : p \in P}))
       IN per <= 0 \/ (span * Len(ops) * Len(d)) \div Max(per, 1) < 100000

InDomain(c, t, lat) ==
  CASE c.op \in {"fill", "push_clip", "contains", "flatten"} -> PathInts(c.path.ops) /\ GeomOK(c.path.ops, t, lat, 0)
    [] c.op = "stroke" -> /\ PathInts(c.path.ops) /\ GeomOK(c.path.ops, t, lat, Outset(c.style))
                          /\ DashCountOK(c.style, c.path.ops)
    [] c.op = "fill_rect" -> (\A j \in 1..4 : Finite(c.r[j])) /\
                             LET b == [j \in 1..4 |-> Bounds(c.r[j])]
                                 ops == << <<"M", b[1][1], b[2][1]>>, <<"L", b[1][2] + b[3][2], b[2][2] + b[4][2]>>, <<"L", b[1][1] + b[3][1], b[2][1] + b[4][1]>> >>
                             IN GeomOK(ops, t, lat, 0)
    [] c.op \in {"draw_image_at", "draw_image_with_size_at"} ->
         Finite(c.x) /\ Finite(c.y) /\
         LET ww == IF c.op = "draw_image_at" THEN c.img.w ELSE c.w
             hh == IF c.op = "draw_image_at" THEN c.img.h ELSE c.h
         IN Finite(ww) /\ Finite(hh) /\
            GeomOK(<< <<"M", Bounds(c.x)[1], Bounds(c.y)[1]>>, <<"L", Bounds(c.x)[2] + Bounds(ww)[2], Bounds(c.y)[2] + Bounds(hh)[2]>>,
                      <<"L", Bounds(c.x)[1] + Bounds(ww)[1], Bounds(c.y)[1] + Bounds(hh)[1]>> >>, t, lat, 0)
    [] OTHER -> TRUE
=============================================================================
