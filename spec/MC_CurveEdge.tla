---------------------------- MODULE MC_CurveEdge ----------------------------
(* Design-level check for C08: the curve-edge machine of the rasteriser      *)
(* (CurveEdge.tla: subdivision count, forward differences, per-row stepping) *)
(* stays within TOL/64 px of the true quadratic on every sample row, for     *)
(* every y-monotonic edge whose control points lie on a lattice of step STEP *)
(* (Dot2) in [0, MAXC]^2, plus the same edges shifted by OFFS (odd offsets   *)
(* exercise the sub-pixel phases).                                           *)
EXTENDS CurveEdgeP, Env
MAXC == EnvInt("MAXC", 96)
STEP == EnvInt("STEP", 16)
OFFS == EnvInt("OFFS", 0)
TOL == EnvInt("TOL", 48)
Vals == {k * STEP + OFFS : k \in 0..(MAXC \div STEP)}
VARIABLES E, picked
\* two steps so that TLC's workers share the domain: the y coordinates first, then the x coordinates
Init == /\ picked = FALSE
        /\ E \in {e \in [x1 : {0}, y1 : Vals, cx : {0}, cy : Vals, x2 : {0}, y2 : Vals] : Monotonic(e)}
Next == /\ ~picked /\ picked' = TRUE
        /\ \E a \in Vals, b \in Vals, c \in Vals : E' = [E EXCEPT !.x1 = a, !.cx = b, !.x2 = c]
Tracks == LET r == Run(E) IN ~picked \/ r.ovf \/ BadRows(E, r.xs, TOL, 1) = {}
\* the subdivision count bounds the flattening error: |d2| / (8 * 4^shift) <= 1/2 px (in Dot2 * 16 units)
Flat == LET d2 == Max(Abs(2 * E.cx - E.x1 - E.x2), Abs(2 * E.cy - E.y1 - E.y2)) * 16
            s == ClampShift(CurveSteps(E))
        IN s = MAX_COEFF_SHIFT \/ d2 <= 8 * Pow2(2 * s) * 32
=============================================================================
