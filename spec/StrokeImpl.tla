----------------------------- MODULE StrokeImpl -----------------------------
(* I level: the piece emission of raqote's stroker (stroke.rs                *)
(* stroke_to_path) as a machine over the ops of a flat path: cur_pt,         *)
(* start_point (with the first segment's direction), last_normal (here: the  *)
(* last segment's direction).  One action per op plus the final caps.  What  *)
(* is emitted is abstract: <<"rect", a, b>>, <<"join", p, dirIn, dirOut>>,   *)
(* <<"cap", p, dirOut>> with directions reduced to lowest terms.             *)
(*                                                                           *)
(* MC_Stroke checks that the emitted pieces are exactly the pieces the       *)
(* P-level structure prescribes (Stroke.tla / PathSem: a rectangle per       *)
(* non-degenerate segment, a join at every interior vertex and at both ends  *)
(* of the closing segment of closed subpaths, caps at both ends of open      *)
(* subpaths, nothing for single points, a drawing op after Close continuing  *)
(* from the subpath start).  FIXED selects the repaired Close (8f94133).     *)
EXTENDS PathSem, TLC

CONSTANTS FIXED
VARIABLES ops,        \* remaining path ops (only M, L, Z)
          cur,        \* cur_pt or <<>>
          startp,     \* start_point: <<point, dir>> or <<>>
          lastDir,    \* direction of the last non-degenerate segment
          emitted,    \* sequence of emitted pieces
          done
vars == <<ops, cur, startp, lastDir, emitted, done>>

DirOf(a, b) == LET dx == b[1] - a[1]  dy == b[2] - a[2]
                   g == GCD(Abs(dx), Abs(dy))
               IN <<dx \div g, dy \div g>>
NegDir(d) == <<-d[1], -d[2]>>
Caps == IF cur # <<>> /\ startp # <<>> THEN << <<"cap", cur, lastDir>>, <<"cap", startp[1], NegDir(startp[2])>> >> ELSE <<>>

DoMove ==
  /\ ~done /\ ops # <<>> /\ Kind(Head(ops)) = "M"
  /\ emitted' = emitted \o Caps
  /\ startp' = <<>> /\ cur' = EndPoint(Head(ops))
  /\ ops' = Tail(ops) /\ UNCHANGED <<lastDir, done>>
DoLine ==
  /\ ~done /\ ops # <<>> /\ Kind(Head(ops)) = "L"
  /\ LET pt == EndPoint(Head(ops)) IN
     IF cur = <<>> THEN startp' = <<>> /\ emitted' = emitted /\ lastDir' = lastDir
     ELSE IF cur = pt THEN UNCHANGED <<startp, emitted, lastDir>>        \* compute_normal is None
     ELSE LET d == DirOf(cur, pt) IN
          /\ startp' = IF startp = <<>> THEN <<cur, d>> ELSE startp
          /\ emitted' = emitted \o (IF startp = <<>> THEN <<>> ELSE << <<"join", cur, lastDir, d>> >>) \o << <<"rect", cur, pt>> >>
          /\ lastDir' = d
  /\ cur' = EndPoint(Head(ops))
  /\ ops' = Tail(ops) /\ UNCHANGED done
DoClose ==
  /\ ~done /\ ops # <<>> /\ Kind(Head(ops)) = "Z"
  /\ IF cur # <<>> /\ startp # <<>>
     THEN LET e == startp[1]  sd == startp[2] IN
          IF cur # e
          THEN LET d == DirOf(cur, e) IN
               emitted' = emitted \o << <<"join", cur, lastDir, d>>, <<"rect", cur, e>>, <<"join", e, d, sd>> >>
          ELSE emitted' = Append(emitted, <<"join", e, lastDir, sd>>)
     ELSE emitted' = emitted
  /\ cur' = IF startp # <<>> THEN startp[1] ELSE (IF FIXED THEN cur ELSE <<>>)
  /\ startp' = <<>>
  /\ ops' = Tail(ops) /\ UNCHANGED <<lastDir, done>>
Finish ==
  /\ ~done /\ ops = <<>>
  /\ emitted' = emitted \o Caps /\ done' = TRUE
  /\ UNCHANGED <<ops, cur, startp, lastDir>>
Next == DoMove \/ DoLine \/ DoClose \/ Finish

(*-------------------------- the P-level structure -------------------------*)
\* stroke subpaths of a polyline path (as Stroke.Subpaths): points and closed flag
RECURSIVE SubsRec(_, _, _, _)
SubsRec(os, acc, c, cs) ==
  LET flush == IF Len(c) >= 1 THEN Append(acc, [pts |-> c, closed |-> FALSE]) ELSE acc IN
  IF os = <<>> THEN flush
  ELSE LET op == Head(os) IN
       CASE Kind(op) = "M" -> SubsRec(Tail(os), flush, <<EndPoint(op)>>, CursorAfter(cs, op))
         [] Kind(op) = "Z" -> SubsRec(Tail(os), IF Len(c) >= 1 THEN Append(acc, [pts |-> c, closed |-> TRUE]) ELSE acc,
                                     IF cs.start = <<>> THEN <<>> ELSE <<cs.start>>, CursorAfter(cs, op))
         [] Kind(op) = "L" -> SubsRec(Tail(os), acc, IF c = <<>> THEN <<EndPoint(op)>> ELSE Append(c, EndPoint(op)), CursorAfter(cs, op))
RECURSIVE DedupP(_)
DedupP(s) == IF Len(s) <= 1 THEN s ELSE IF s[1] = s[2] THEN DedupP(Tail(s)) ELSE <<s[1]>> \o DedupP(Tail(s))
SubPieces(sp) ==     \* a sequence (pieces can repeat when a path retraces itself)
  LET p0 == DedupP(sp.pts)
      p == IF sp.closed /\ Len(p0) >= 2 /\ p0[1] = p0[Len(p0)] THEN SubSeq(p0, 1, Len(p0) - 1) ELSE p0
      n == Len(p)
      nx(i) == IF i = n THEN 1 ELSE i + 1
      pv(i) == IF i = 1 THEN n ELSE i - 1
  IN IF n < 2 THEN <<>>
     ELSE IF ~sp.closed THEN
        [i \in 1..(n - 1) |-> <<"rect", p[i], p[i + 1]>>]
        \o [i \in 1..(n - 2) |-> <<"join", p[i + 1], DirOf(p[i], p[i + 1]), DirOf(p[i + 1], p[i + 2])>>]
        \o << <<"cap", p[1], NegDir(DirOf(p[1], p[2]))>>, <<"cap", p[n], DirOf(p[n - 1], p[n])>> >>
     ELSE [i \in 1..n |-> <<"rect", p[i], p[nx(i)]>>]
          \o [i \in 1..n |-> <<"join", p[i], DirOf(p[pv(i)], p[i]), DirOf(p[i], p[nx(i)])>>]
RECURSIVE Concat(_, _)
Concat(ss, i) == IF i > Len(ss) THEN <<>> ELSE SubPieces(ss[i]) \o Concat(ss, i + 1)
SpecPieces(path) == Concat(SubsRec(path, <<>>, <<>>, NoCursor), 1)
Count(seq, x) == Cardinality({i \in 1..Len(seq) : seq[i] = x})
SameBag(a, b) == /\ Len(a) = Len(b)
                 /\ \A x \in {a[i] : i \in 1..Len(a)} : Count(a, x) = Count(b, x)
=============================================================================
