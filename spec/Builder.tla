------------------------------ MODULE Builder ------------------------------
(* C20: PathBuilder is an append-only log of ops; finish() returns it with  *)
(* NonZero winding; Path::transform maps every point and keeps order and    *)
(* winding; rect and arc produce the documented geometry.                   *)
EXTENDS Geom

(*---------------------------- the builder log ----------------------------*)
\* calls: <<"move_to",x,y>> <<"line_to",x,y>> <<"quad_to",cx,cy,x,y>>
\*        <<"cubic_to",..6..>> <<"close">> <<"rect",x,y,w,h>>
CallOps(c) ==
  CASE c[1] = "move_to"  -> << <<"M", c[2], c[3]>> >>
    [] c[1] = "line_to"  -> << <<"L", c[2], c[3]>> >>
    [] c[1] = "quad_to"  -> << <<"Q", c[2], c[3], c[4], c[5]>> >>
    [] c[1] = "cubic_to" -> << <<"C", c[2], c[3], c[4], c[5], c[6], c[7]>> >>
    [] c[1] = "close"    -> << <<"Z">> >>
    [] c[1] = "rect"     -> << <<"M", c[2], c[3]>>, <<"L", c[2] + c[4], c[3]>>,
                               <<"L", c[2] + c[4], c[3] + c[5]>>, <<"L", c[2], c[3] + c[5]>>, <<"Z">> >>
RECURSIVE Built(_)
Built(calls) == IF calls = <<>> THEN <<>> ELSE CallOps(Head(calls)) \o Built(Tail(calls))
HasArc(calls) == \E i \in 1..Len(calls) : calls[i][1] = "arc"

(* Matching a recorded op list against a call list that contains arc calls: an  *)
(* arc appends one LineTo (to the arc's start) followed by zero or more QuadTo  *)
(* ops; every other call appends exactly its pattern.  ops are in 1/1024 px.    *)
RECURSIVE MatchBuilt(_, _, _)
MatchBuilt(calls, ops, den) ==
  IF calls = <<>> THEN ops = <<>>
  ELSE LET c == Head(calls) IN
       IF c[1] = "arc"
       THEN /\ ops # <<>> /\ ops[1][1] = "L"
            /\ \E k \in 0..(Len(ops) - 1) :
                  /\ \A j \in 2..(k + 1) : ops[j][1] = "Q"
                  /\ MatchBuilt(Tail(calls), SubSeq(ops, k + 2, Len(ops)), den)
       ELSE LET pat == [i \in 1..Len(CallOps(c)) |-> [j \in 1..Len(CallOps(c)[i]) |->
                          IF j = 1 THEN CallOps(c)[i][1] ELSE CallOps(c)[i][j] * (1024 \div den)]]
            IN /\ Len(ops) >= Len(pat) /\ SubSeq(ops, 1, Len(pat)) = pat
               /\ MatchBuilt(Tail(calls), SubSeq(ops, Len(pat) + 1, Len(ops)), den)

\* scale an op's coordinates from units of 1/den to units of 1/1024 (den divides 1024)
ScaleOp(op, den) == [i \in 1..Len(op) |-> IF i = 1 THEN op[1] ELSE op[i] * (1024 \div den)]
ScaleOps(ops, den) == [i \in 1..Len(ops) |-> ScaleOp(ops[i], den)]

\* Path::transform: every point of every op through (x, y) |-> (x m11 + y m21 + m31, ...)
\* result in units of 1/1024; exact iff den * mden divides 1024
MapPt(x, y, m, den, mden) ==
  <<((x * m[1] + y * m[3] + m[5] * den) * 1024) \div (den * mden),
    ((x * m[2] + y * m[4] + m[6] * den) * 1024) \div (den * mden)>>
MapOp(op, m, den, mden) ==
  LET P(i) == MapPt(op[i], op[i + 1], m, den, mden) IN
  CASE op[1] \in {"M", "L"} -> <<op[1], P(2)[1], P(2)[2]>>
    [] op[1] = "Q" -> <<"Q", P(2)[1], P(2)[2], P(4)[1], P(4)[2]>>
    [] op[1] = "C" -> <<"C", P(2)[1], P(2)[2], P(4)[1], P(4)[2], P(6)[1], P(6)[2]>>
    [] op[1] = "Z" -> <<"Z">>
MapOps(ops, m, den, mden) == [i \in 1..Len(ops) |-> MapOp(ops[i], m, den, mden)]
Kinds(ops) == [i \in 1..Len(ops) |-> ops[i][1]]

(*--------------------------------- arcs ----------------------------------*)
(* Directions are unit Gaussian rationals <<a, b, n>> = (a + b i) / n with   *)
(* a^2 + b^2 = n^2.  Angles grow clockwise on screen (y points down).       *)
DirMul(p, q) == <<p[1] * q[1] - p[2] * q[2], p[1] * q[2] + p[2] * q[1], p[3] * q[3]>>
DirConj(p) == <<p[1], -p[2], p[3]>>
QuarterDir(k) == CASE k % 4 = 0 -> <<1, 0, 1>> [] k % 4 = 1 -> <<0, 1, 1>>
                   [] k % 4 = 2 -> <<-1, 0, 1>> [] k % 4 = 3 -> <<0, -1, 1>>
\* sweep = sign * (quarters * 90 degrees + angle(sdir)), sdir in the first quadrant [0, 90)
SweepDir(sign, quarters, sdir) ==
  LET d == DirMul(QuarterDir(quarters), sdir) IN IF sign > 0 THEN d ELSE DirConj(d)
FullTurns(quarters, sdir) == quarters >= 4       \* |sweep| >= 360 degrees
\* direction of the end of the arc
EndDir(start, sign, quarters, sdir) ==
  IF FullTurns(quarters, sdir) THEN start ELSE DirMul(start, SweepDir(sign, quarters, sdir))

\* |p - r * dir| <= tol, all in 1/1024 px; r1024 <= 40 * 1024
NearDir(p, r1024, dir, tol) ==
  LET ex == (r1024 * dir[1]) \div dir[3]  ey == (r1024 * dir[2]) \div dir[3]
      dx == p[1] - ex  dy == p[2] - ey
  IN Abs(dx) <= tol /\ Abs(dy) <= tol /\ dx * dx + dy * dy <= tol * tol      \* (bounds first: 31-bit squares)
RadiusOK(p, r1024) ==
  LET lo == (r1024 * 995) \div 1000 - 2   hi == (r1024 * 1005) \div 1000 + 2
  IN /\ Abs(p[1]) <= hi /\ Abs(p[2]) <= hi
     /\ LET d2 == p[1] * p[1] + p[2] * p[2] IN (lo <= 0 \/ d2 >= lo * lo) /\ d2 <= hi * hi
\* quadrant of a sample, 0..3 (clockwise on screen from +x); -1 on an axis
Quadrant(p) == IF p[1] > 0 /\ p[2] > 0 THEN 0 ELSE IF p[1] < 0 /\ p[2] > 0 THEN 1
               ELSE IF p[1] < 0 /\ p[2] < 0 THEN 2 ELSE IF p[1] > 0 /\ p[2] < 0 THEN 3 ELSE -1
\* signed number of axis crossings along the sample sequence: each off-axis sample is
\* compared with the previous off-axis sample (consecutive samples are < 45 degrees apart)
RECURSIVE AxisCross(_, _, _)
AxisCross(ss, i, lastq) ==
  IF i > Len(ss) THEN 0
  ELSE LET q == Quadrant(ss[i]) IN
       IF q = -1 THEN AxisCross(ss, i + 1, lastq)
       ELSE IF lastq = -1 THEN AxisCross(ss, i + 1, q)
       ELSE (IF q = lastq THEN 0 ELSE IF q = (lastq + 1) % 4 THEN 1 ELSE IF q = (lastq + 3) % 4 THEN -1 ELSE 100)
            + AxisCross(ss, i + 1, q)
\* expected number of axis directions strictly inside / weakly inside the swept interval
\* start direction in quadrant position: number of axes passed = quarters + (does the remainder
\* cross one more axis?)
OnAxis(d) == d[1] = 0 \/ d[2] = 0
\* rotate the start direction into the first quadrant frame: position within its quadrant
\* is compared through cross products
CrossDir(p, q) == p[1] * q[2] - p[2] * q[1]          \* > 0: q is clockwise of p (by < 180)
DotDir(p, q) == p[1] * q[1] + p[2] * q[2]
\* turning direction of the sample polyline around the centre
TurnsOneWay(ss, sign) ==
  \A i \in 1..(Len(ss) - 1) :
     LET c == ss[i][1] * ss[i + 1][2] - ss[i][2] * ss[i + 1][1]
     IN IF sign > 0 THEN c >= 0 ELSE c <= 0
=============================================================================
