---------------------------- MODULE Trace_DashOps ----------------------------
(* Binding of the dasher at the level of its output: the polylines that      *)
(* dash_path (hook verif_dash_path) returned for a flat path are compared    *)
(* with the pieces Dash.tla prescribes (arc-length semantics), as the        *)
(* stroker would see them (zero-length segments ignored, single points       *)
(* dropped).  This is NOT a verdict on C09 - the property speaks about the   *)
(* painted region, and different polylines can paint the same region - but a *)
(* cheap filter over very many inputs: every input whose pieces differ       *)
(* ("DRIFT") is then rendered with several styles and decided per pixel by   *)
(* Trace_Dash.  Points of the code are in 1/1024 px.                         *)
EXTENDS Dash, Json, IOUtils
Rec == ndJsonDeserialize(IOEnv.TRACE)
VARIABLE i
Init == i \in 1..Len(Rec)
Next == FALSE /\ UNCHANGED i

\* pieces of the recorded ops: M starts one, L extends it, Z closes it
RECURSIVE CodePieces(_, _, _)
CodePieces(ops, cur, acc) ==
  LET flush(c, cl) == IF Len(c) >= 1 THEN Append(acc, [pts |-> c, closed |-> cl]) ELSE acc IN
  IF ops = <<>> THEN flush(cur, FALSE)
  ELSE LET o == Head(ops) IN
       CASE o[1] = "M" -> CodePieces(Tail(ops), << <<o[2], o[3]>> >>, flush(cur, FALSE))
         [] o[1] = "L" -> CodePieces(Tail(ops), Append(cur, <<o[2], o[3]>>), acc)
         [] o[1] = "Z" -> CodePieces(Tail(ops), IF cur = <<>> THEN <<>> ELSE <<cur[1]>>, flush(cur, TRUE))
         [] OTHER -> CodePieces(Tail(ops), cur, acc)
Near(a, b) == Abs(a[1] - b[1]) <= 3 /\ Abs(a[2] - b[2]) <= 3
RECURSIVE DedupNear(_)
DedupNear(s) == IF Len(s) <= 1 THEN s ELSE IF Near(s[1], s[2]) THEN DedupNear(Tail(s)) ELSE <<s[1]>> \o DedupNear(Tail(s))
NormCode(p) == LET d == DedupNear(p.pts)
                   d2 == IF p.closed /\ Len(d) >= 2 /\ Near(d[1], d[Len(d)]) THEN SubSeq(d, 1, Len(d) - 1) ELSE d
               IN [pts |-> d2, closed |-> p.closed /\ Len(d2) >= 2]
Keep(ps) == LET n == [k \in 1..Len(ps) |-> NormCode(ps[k])]
            IN {n[k] : k \in {j \in 1..Len(ps) : Len(n[j].pts) >= 2}}
\* a specification piece (K-scaled px) against a code piece (1/1024 px)
Same(sp, cp, K) ==
  /\ sp.closed = cp.closed /\ Len(sp.pts) = Len(cp.pts)
  /\ \A k \in 1..Len(sp.pts) : /\ Abs(cp.pts[k][1] * K - sp.pts[k][1] * 1024) <= 4 * K
                               /\ Abs(cp.pts[k][2] * K - sp.pts[k][2] * 1024) <= 4 * K
Check ==
  LET e == Rec[i] IN
  IF ~("dash_ops" \in DOMAIN e) THEN PrintT(<<"NOOPS", i, e.id>>)
  ELSE IF ~e.dash_finite THEN PrintT(<<"DRIFT", i, e.id, -1, -1>>)      \* NaN / infinite coordinates in the output
  ELSE LET K == e.k
           sps == Subpaths(e.ops)
           ok == \A k \in 1..Len(sps) : SubpathOK(sps[k]) /\ SubpathKOK(sps[k], K)
           spec0 == DashedSubpaths(sps, e.style.dash, e.style.dash_offset, K)
           specN == {[pts |-> Dedup(spec0[k].pts), closed |-> spec0[k].closed] : k \in 1..Len(spec0)}
           spec == {p \in specN : Len(p.pts) >= 2}
           code == Keep(CodePieces(e.dash_ops, <<>>, <<>>))
       IN IF ~ok THEN PrintT(<<"SKIP", i, e.id>>)
          ELSE IF /\ Cardinality(spec) = Cardinality(code)
                  /\ \A s \in spec : \E c \in code : Same(s, c, K)
                  /\ \A c \in code : \E s \in spec : Same(s, c, K)
               THEN TRUE
               ELSE PrintT(<<"DRIFT", i, e.id, Cardinality(spec), Cardinality(code)>>) /\ (IF "DEBUG" \in DOMAIN IOEnv THEN PrintT(<<"DBG", i, spec, code>>) ELSE TRUE)
=============================================================================
