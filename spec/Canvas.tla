------------------------------- MODULE Canvas -------------------------------
(* The DrawTarget API as a state machine (P level).                         *)
(*                                                                          *)
(* State of one target: pix (visible pixels, row-major sequence of          *)
(* <<a,r,g,b>>), ctm (rational affine matrix), clips (the WHOLE stack of    *)
(* pushed clips), layers (stack of [opacity, blend]).  One action per       *)
(* public call.  The properties C02 (MayChange), C03 (Allowed), C05         *)
(* (effective clip = intersection / product of the whole stack), C06        *)
(* (layers), C11 (transform) and C18 (premultiplied) are predicates over    *)
(* one step of this machine; Trace_Canvas evaluates them on recorded steps  *)
(* of the real library, MC_Canvas on the machine itself.                    *)
EXTENDS Coverage, Pixel, PathSem

Has(r, f) == f \in DOMAIN r

(*------------------------------ transforms -------------------------------*)
(* m = <<m11, m12, m21, m22, m31, m32>> / den, as euclid's Transform2D:     *)
(* (x, y) |-> (x m11 + y m21 + m31, x m12 + y m22 + m32)                    *)
Identity == [m |-> <<1, 0, 0, 1, 0, 0>>, den |-> 1]
CtmOf(c) == [m |-> c.m, den |-> IF Has(c, "mden") THEN c.mden ELSE 1]
Det(t) == t.m[1] * t.m[4] - t.m[2] * t.m[3]
Singular(t) == Det(t) = 0
IsIdentity(t) == t.m = <<t.den, 0, 0, t.den, 0, 0>>

\* numerators of the device coordinates of user point p / pden, over pden * t.den
DevNum(t, pden, p) == <<p[1] * t.m[1] + p[2] * t.m[3] + t.m[5] * pden,
                        p[1] * t.m[2] + p[2] * t.m[4] + t.m[6] * pden>>
DevExactQ(t, pden, p) == LET n == DevNum(t, pden, p) d == pden * t.den
                         IN (4 * n[1]) % d = 0 /\ (4 * n[2]) % d = 0
DevQ(t, pden, p) == LET n == DevNum(t, pden, p) d == pden * t.den
                    IN <<(4 * n[1]) \div d, (4 * n[2]) \div d>>
\* outward-rounded device bounding box, in pixels, of a set of user points
DevBBox(t, pden, P) ==
  LET d == pden * t.den
      xs == {DevNum(t, pden, p)[1] : p \in P}  ys == {DevNum(t, pden, p)[2] : p \in P}
  IN Box(FloorDiv(SetMin(xs), d), FloorDiv(SetMin(ys), d), CeilDiv(SetMax(xs), d), CeilDiv(SetMax(ys), d))

(*--------------------------------- clips ----------------------------------*)
(* The clip stack is kept whole.  An entry is                               *)
(*   [kind |-> "rect", box]  or  [kind |-> "path", known, es, rule]         *)
(* (es = device edges in quarter pixels).  For evaluation speed every entry *)
(* also memoises the effective clip of the stack up to and including it:    *)
(* cbox = intersection of all rectangles (and the surface), ccov[k] = the   *)
(* set of possible products, in push order, of the path coverages at pixel  *)
(* k, cknown = all paths below are lattice-exact.  These are functions of   *)
(* the whole stack prefix, not extra state.                                 *)
BaseClip(W, H) == [cbox |-> SurfaceBox(W, H), ccov |-> [k \in 1..(W * H) |-> {255}], cknown |-> TRUE]
TopClip(clips, W, H) == IF clips = <<>> THEN BaseClip(W, H) ELSE clips[Len(clips)]
PathCovMap(es, rule, W, H) == [k \in 1..(W * H) |-> AllowedAlpha(es, rule, TRUE, (k - 1) % W, (k - 1) \div W)]
PushRect(clips, box, W, H) ==
  LET top == TopClip(clips, W, H)
  IN Append(clips, [kind |-> "rect", box |-> box,
                    cbox |-> BoxMeet(top.cbox, box), ccov |-> top.ccov, cknown |-> top.cknown])
PushPath(clips, known, es, rule, W, H) ==
  LET top == TopClip(clips, W, H)
      a == PathCovMap(es, rule, W, H)
  IN Append(clips, [kind |-> "path", known |-> known, es |-> es, rule |-> rule,
                    cbox |-> top.cbox,
                    ccov |-> IF known THEN [k \in 1..(W * H) |-> {MulDiv255(x, y) : x \in a[k], y \in top.ccov[k]}]
                             ELSE [k \in 1..(W * H) |-> 0..255],
                    cknown |-> top.cknown /\ known])
InClipRect(clips, W, H, k) == InBox(TopClip(clips, W, H).cbox, (k - 1) % W, (k - 1) \div W)
ClipsKnown(clips, W, H) == TopClip(clips, W, H).cknown
ClipCovSet(clips, W, H, k) == TopClip(clips, W, H).ccov[k]
\* can pixel k receive anything through the clip stack?
ClipMay(clips, W, H, k) == InClipRect(clips, W, H, k) /\ ClipCovSet(clips, W, H, k) # {0}

(*------------------------------ draw calls -------------------------------*)
DrawOps == {"fill", "fill_rect", "stroke", "clear", "mask", "draw_image_at",
            "draw_image_with_size_at", "pop_layer"}
OptBlend(c) == IF Has(c, "opts") /\ Has(c.opts, "blend") THEN c.opts.blend ELSE "SrcOver"
OptAlpha(c) == IF Has(c, "opts") /\ Has(c.opts, "alpha") THEN AlphaByte(c.opts.alpha[1], c.opts.alpha[2]) ELSE 255
OptAA(c)    == IF Has(c, "opts") /\ Has(c.opts, "aa") THEN c.opts.aa ELSE TRUE
PathDen(c, den) == IF Has(c.path, "den") THEN c.path.den ELSE den
PathRule(p) == IF Has(p, "winding") THEN p.winding ELSE "NonZero"

\* device loops (q) of a polyline path under t, and whether they are exact
PathDevLoops(t, pden, ops) ==
  LET ls == FillLoops(ops)
  IN [i \in 1..Len(ls) |-> [j \in 1..Len(ls[i]) |-> DevQ(t, pden, ls[i][j])]]
PathExact(t, pden, ops) ==
  IsPolyline(ops) /\ \A p \in PathPoints(ops) : DevExactQ(t, pden, p)

CallDen(c, den) == IF Has(c, "den") THEN c.den ELSE den

(* Geometry of a draw call: the path ops and denominator it fills, if any.  *)
GeomOps(c, den) ==
  CASE c.op \in {"fill", "stroke"} -> c.path.ops
    [] c.op = "fill_rect" -> << <<"R", c.r[1], c.r[2], c.r[3], c.r[4]>> >>
    [] c.op = "draw_image_at" -> << <<"R", c.x, c.y, c.img.w * CallDen(c, den), c.img.h * CallDen(c, den)>> >>
    [] c.op = "draw_image_with_size_at" -> << <<"R", c.x, c.y, c.w, c.h>> >>
GeomDen(c, den) == IF c.op \in {"fill", "stroke"} THEN PathDen(c, den) ELSE CallDen(c, den)
GeomRule(c) == IF c.op = "fill" THEN PathRule(c.path) ELSE "NonZero"
HasGeom(c) == c.op \in {"fill", "fill_rect", "stroke", "draw_image_at", "draw_image_with_size_at"}

(* Is the shape coverage of this call computable exactly by Coverage.tla?   *)
CovExact(c, st, den) ==
  CASE c.op \in {"clear", "mask", "pop_layer"} -> TRUE
    [] c.op \in {"fill", "fill_rect", "draw_image_at", "draw_image_with_size_at"} ->
         st.lat /\ c.lat /\ ~Singular(st.ctm) /\ PathExact(st.ctm, GeomDen(c, den), GeomOps(c, den))
    [] OTHER -> FALSE

(* Rough device bounding box for strokes and curves: the stroke outset is   *)
(* half the width times max(miter limit, sqrt 2), over-approximated by      *)
(* width * max(ceil(miter), 2) / 2, plus one pixel all round.               *)
StrokeGrow(c, pden) ==      \* in units of 1 / pden, rounded up
  LET sden == IF Has(c.style, "den") THEN c.style.den ELSE pden
      ml == IF Has(c.style, "miter") THEN CeilDiv(c.style.miter[1], c.style.miter[2]) ELSE 10
      w == Max(c.style.width, 0)
  IN CeilDiv(w * Max(ml, 2) * pden, 2 * sden) + 1
GrowPts(P, g) == UNION {{<<p[1] - g, p[2] - g>>, <<p[1] + g, p[2] - g>>,
                         <<p[1] - g, p[2] + g>>, <<p[1] + g, p[2] + g>>} : p \in P}
RoughBox(c, t, den) ==
  LET pd == GeomDen(c, den)
      P == PathPoints(Expand(GeomOps(c, den)))
      Q == IF c.op = "stroke" THEN GrowPts(P, StrokeGrow(c, pd)) ELSE P
      b == IF Q = {} THEN Box(0, 0, 0, 0) ELSE DevBBox(t, pd, Q)
  IN Box(b.x0 - 1, b.y0 - 1, b.x1 + 1, b.y1 + 1)

(* The possible shape-coverage bytes of every pixel.                        *)
ShapeCovMap(c, st, den, W, H) ==
  LET N == W * H
      PX(k) == (k - 1) % W
      PY(k) == (k - 1) \div W
  IN
  CASE c.op \in {"clear", "pop_layer"} -> [k \in 1..N |-> {255}]
    [] c.op = "mask" ->
         [k \in 1..N |-> IF InBox(Box(c.x, c.y, c.x + c.mw, c.y + c.mh), PX(k), PY(k))
                         THEN {c.data[(PY(k) - c.y) * c.mw + (PX(k) - c.x) + 1]} ELSE {0}]
    [] st.lat /\ Singular(st.ctm) -> [k \in 1..N |-> {0}]
    [] CovExact(c, st, den) ->
         LET es == Edges(PathDevLoops(st.ctm, GeomDen(c, den), GeomOps(c, den)))
             rule == GeomRule(c)
             aa == OptAA(c)
         IN [k \in 1..N |-> AllowedAlpha(es, rule, aa, PX(k), PY(k))]
    [] Has(c, "bbox") ->
         LET b == Box(c.bbox[1], c.bbox[2], c.bbox[3], c.bbox[4])
         IN [k \in 1..N |-> IF InBox(b, PX(k), PY(k)) THEN 0..255 ELSE {0}]
    [] st.lat /\ c.lat /\ HasGeom(c) ->
         LET b == RoughBox(c, st.ctm, den)
         IN [k \in 1..N |-> IF InBox(b, PX(k), PY(k)) THEN 0..255 ELSE {0}]
    [] OTHER -> [k \in 1..N |-> 0..255]

(*---------------------------- source colours -----------------------------*)
(* The property says "the source colour scaled by the global alpha"; both   *)
(* 8-bit scalings the library could use are accepted.                       *)
Scaled(p, ab) == {AlphaMul(p, Alpha256(ab)), [ch \in Chan |-> MulDiv255(p[ch], ab)]}

\* possible source colours at pixel k; {} = not determinable (no C03 verdict)
SourceSet(e, st, den, W, k) ==
  LET c == e.call  px == (k - 1) % W  py == (k - 1) \div W IN
  CASE c.op = "clear" -> {c.color}
    [] c.op = "pop_layer" -> IF Has(e, "layer_pix") THEN {e.layer_pix[k]} ELSE {}
    [] c.op = "draw_image_at" ->
         LET cd == CallDen(c, den) IN
         IF st.lat /\ IsIdentity(st.ctm) /\ c.lat /\ c.x % cd = 0 /\ c.y % cd = 0
         THEN LET ix == px - c.x \div cd  iy == py - c.y \div cd
              IN IF 0 <= ix /\ ix < c.img.w /\ 0 <= iy /\ iy < c.img.h
                 THEN Scaled(c.img.data[iy * c.img.w + ix + 1], OptAlpha(c)) ELSE {}
         ELSE {}
    [] Has(c, "src") /\ c.src.kind = "solid" -> Scaled(c.src.c, IF c.op = "mask" THEN 255 ELSE OptAlpha(c))
    \* image sources: the source colour observed at alpha 1, scaled by the global alpha here
    [] Has(e, "shade1") /\ c.lat /\ Has(c, "opts") /\ Has(c.opts, "alpha") -> Scaled(e.shade1[k], OptAlpha(c))
    [] Has(e, "shade") -> {e.shade[k]}
    [] OTHER -> {}

TopLayer(st) == st.layers[Len(st.layers)]
CallMode(c, st) == CASE c.op = "clear" -> "Src"
                     [] c.op = "mask" -> "SrcOver"
                     [] c.op = "pop_layer" -> TopLayer(st).blend
                     [] OTHER -> OptBlend(c)
OpacityByte(l) == Clamp(AlphaByte(l.opacity[1], l.opacity[2]), 0, 255)

(*------------------------- C02: what may change ---------------------------*)
(* cov = ShapeCovMap of the call                                            *)
MayChange(e, st, cov, W, H, k) ==
  /\ Len(st.layers) = (IF e.call.op = "pop_layer" THEN 1 ELSE 0)
  /\ ClipMay(st.clips, W, H, k)
  /\ cov[k] # {0}

(*------------------------ C03: the allowed values -------------------------*)
(* Defined when source, coverage and clip coverage are all determinable.    *)
AllowedDefined(e, st, den, W, H, k) ==
  /\ CovExact(e.call, st, den)
  /\ ClipsKnown(st.clips, W, H)
  /\ SourceSet(e, st, den, W, k) # {}
Allowed(e, st, cov, den, W, H, k) ==
  LET c == e.call
      d == st.pix[k]
      mode == CallMode(c, st)
      clipc == ClipCovSet(st.clips, W, H, k)
      \* pop_layer: the coverage is the layer opacity
      covs == IF c.op = "pop_layer" THEN {OpacityByte(TopLayer(st))} ELSE cov[k]
  IN UNION {Composite(mode, s, d, cv, cl) : s \in SourceSet(e, st, den, W, k), cv \in covs, cl \in clipc}
\* operands outside the domain on which the lane-wise transcription is valid
Transcribable(e, st, den, W, k) ==
  LET mode == CallMode(e.call, st)
  IN \A s \in SourceSet(e, st, den, W, k) : Premul(s) /\ BlendDefined(mode, s, st.pix[k])

(*------------------------------ the machine -------------------------------*)
PushClipCall(st, c, den, W, H) ==
  IF c.op = "push_clip_rect" THEN PushRect(st.clips, Box(c.r[1], c.r[2], c.r[3], c.r[4]), W, H)
  ELSE LET pd == PathDen(c, den)
           ok == st.lat /\ c.lat /\ ~Singular(st.ctm) /\ PathExact(st.ctm, pd, c.path.ops)
       IN PushPath(st.clips, ok, IF ok THEN Edges(PathDevLoops(st.ctm, pd, c.path.ops)) ELSE <<>>,
                   PathRule(c.path), W, H)

\* state update of a call (pixels are taken from the observation)
ApplyCall(st, c, den, W, H, after) ==
  CASE c.op = "set_transform" ->
         [st EXCEPT !.ctm = IF c.lat THEN CtmOf(c) ELSE Identity, !.lat = c.lat, !.pix = after]
    [] c.op \in {"push_clip_rect", "push_clip"} ->
         [st EXCEPT !.clips = PushClipCall(st, c, den, W, H), !.pix = after]
    [] c.op = "pop_clip" -> [st EXCEPT !.clips = SubSeq(@, 1, Len(@) - 1), !.pix = after]
    [] c.op = "push_layer" ->
         [st EXCEPT !.layers = Append(@, [opacity |-> c.opacity,
                                          blend |-> IF Has(c, "blend") THEN c.blend ELSE "SrcOver"]),
                    !.pix = after]
    [] c.op = "pop_layer" -> [st EXCEPT !.layers = SubSeq(@, 1, Len(@) - 1), !.pix = after]
    [] OTHER -> [st EXCEPT !.pix = after]
\* f32 bit patterns (high and low 16 bits) of the identity matrix
IdBits == << <<16256, 0>>, <<0, 0>>, <<0, 0>>, <<16256, 0>>, <<0, 0>>, <<0, 0>> >>
InitState(init) == [ctm |-> Identity, lat |-> TRUE, mb |-> IdBits, clips |-> <<>>, layers |-> <<>>, pix |-> init]
=============================================================================
