--------------------------- MODULE Trace_Convert ---------------------------
(* C18, conversions: SolidSource::from_unpremultiplied_argb and From<Color> *)
(* produce premultiplied colours (alpha unchanged, every channel <= alpha), *)
(* and to_u32 packs them as the word A,R,G,B (C19).                         *)
EXTENDS Pixel, TLC, Json, IOUtils
Rec == ndJsonDeserialize(IOEnv.TRACE)
VARIABLE i
Init == i \in 1..Len(Rec)
Next == FALSE /\ UNCHANGED i
RowOK(a, row) ==
  /\ \A j \in 2..4 : row[j][1] = a /\ Premul(row[j])
  /\ row[2] = row[3] /\ row[3] = row[4] /\ row[5] = row[2]
  \* the documented rounding: floor(a c / 255 + 1/2)
  /\ \A ch \in 1..3 : row[2][ch + 1] = MulDiv255(a, row[1][ch])
Check == LET e == Rec[i]
             bad == {j \in 1..Len(e.rows) : ~RowOK(e.a, e.rows[j])}
         IN bad = {} \/ PrintT(<<"BAD", i, e.a, bad>>)
=============================================================================
