---------------------------- MODULE Gen_Boundary ----------------------------
(* Scenario generator for C07: every public drawing call with boundary       *)
(* values.  For each call kind every parameter slot has a menu whose first   *)
(* entry is a nominal value; TLC enumerates all assignments in which at most *)
(* two slots are away from nominal (pairwise covering).  Each such call is   *)
(* placed after a prefix of degenerate state-changing calls (zero-sized      *)
(* target, singular transform, inverted / empty / far-away clips, layers     *)
(* with out-of-range opacity) chosen by hash, NPRE prefixes per call.        *)
(* Non-lattice values are tokens: "NaN" "Inf" "-Inf" "Max" "-Max" "MinPos"   *)
(* "-0", rationals are <<n, d>>.  Everything generated lies in the domain    *)
(* stated by the property (Domain.tla re-checks that on the trace).          *)
EXTENDS Integers, Sequences, TLC, Json, Env
NPRE == EnvInt("NPRE", 1)
SALT == EnvInt("SALT", 0)
VARIABLES kind, si, sj, vi, vj
vars == <<kind, si, sj, vi, vj>>

Path(ops) == [ops |-> ops]
Paths == << Path(<< <<"M", 2, 2>>, <<"L", 6, 2>>, <<"L", 6, 6>>, <<"Z">> >>),
            Path(<<>>),
            Path(<< <<"M", 3, 3>> >>),
            Path(<< <<"M", 3, 3>>, <<"L", 3, 3>>, <<"L", 3, 3>>, <<"Z">> >>),
            Path(<< <<"M", 1, 1>>, <<"Q", 1, 1, 1, 1>>, <<"C", 1, 1, 1, 1, 1, 1>>, <<"C", 1, 1, 5, 5, 1, 1>> >>),
            Path(<< <<"L", 4, 4>>, <<"Z">>, <<"Z">>, <<"Q", 2, 7, 7, 2>> >>),
            Path(<< <<"M", -3900, -3900>>, <<"L", 3900, -3800>>, <<"L", 3900, 3900>>, <<"C", -3900, 3900, 3900, -3900, -3900, 0>> >>),
            Path(<< <<"M", 0, 0>>, <<"L", 8, 0>>, <<"L", 8, 8>>, <<"L", 0, 8>>, <<"Z">>, <<"M", 2, 4>>, <<"L", 2, 4>> >>),
            Path(<< <<"A", 4, 4, 3, <<0, 1>>, <<44, 7>> >>, <<"A", 4, 4, 0, <<7, 3>>, <<-100, 1>> >> >>),
            Path(<< <<"M", 1, 4>>, <<"L", 7, 4>>, <<"L", 1, 4>>, <<"L", 7, 4>> >>) >>
Widths == <<2, 0, -1, "NaN", "MinPos", 100, "-0", <<1, 1000>> >>
Caps == <<"Butt", "Round", "Square">>
Joins == <<"Miter", "Round", "Bevel">>
Miters == << <<4, 1>>, <<0, 1>>, <<1, 1>>, <<39, 1>> >>
Dashes == << <<>>, <<3, 2>>, <<0>>, <<0, 0>>, <<5, -5>>, <<-1, 5>>, <<"NaN">>, <<"Inf">>, <<"Max", "Max">>, <<5>>, <<3, 2, 1>>,
             <<0, 4>>, <<4, 0>>, <<"Inf", 1>>, <<1, "NaN">>, <<"Max", 1, "Max", 1>>, <<"-Inf", 3>>, <<1, 1, 1, 1, 1, 1>>,
             <<"Max">>, <<"Max", 1, 1>> >>      \* odd length: the doubled period overflows although the sum is finite
Offsets == <<0, -3, 7, "Inf", "-Inf", "NaN", "Max", "-Max", <<-1, 1>>, 1000000, -1000000, "MinPos">>
Alphas == << <<1, 1>>, <<0, 1>>, <<1, 2>>, <<3, 2>>, <<300, 1>>, <<-1, 1>>, "NaN", "Inf", "-Inf", "Max", "-0", "MinPos">>
Modes == <<"SrcOver", "Src", "Clear", "Xor", "Multiply", "ColorDodge", "SoftLight", "DstAtop", "Add", "Exclusion">>
Solid(c) == [kind |-> "solid", c |-> c]
Img2 == [w |-> 2, h |-> 2, data |-> << <<255, 255, 0, 0>>, <<128, 0, 128, 0>>, <<255, 0, 0, 255>>, <<64, 32, 16, 8>> >>]
Img1 == [w |-> 1, h |-> 1, data |-> << <<200, 100, 50, 25>> >>]
Stops1 == << << <<1, 2>>, <<255, 255, 255, 255>> >> >>
Stops3 == << << <<0, 1>>, <<255, 255, 0, 0>> >>, << <<1, 2>>, <<255, 0, 255, 0>> >>, << <<1, 2>>, <<0, 0, 0, 0>> >>, << <<1, 1>>, <<255, 0, 0, 255>> >> >>
Sources ==
  << Solid(<<255, 255, 0, 0>>), Solid(<<0, 0, 0, 0>>), Solid(<<128, 64, 0, 32>>),
     [kind |-> "image", img |-> Img2, extend |-> "Pad", filter |-> "Bilinear", m |-> <<1, 0, 0, 1, 0, 0>>, mden |-> 1],
     [kind |-> "image", img |-> Img1, extend |-> "Repeat", filter |-> "Nearest", m |-> <<0, 0, 0, 0, 0, 0>>, mden |-> 1],
     [kind |-> "image", img |-> Img2, extend |-> "Repeat", filter |-> "Bilinear", m |-> <<1000, 0, 0, 1000, -3000, 3000>>, mden |-> 1],
     [kind |-> "linear", stops |-> Stops1, start |-> <<0, 0>>, end |-> <<0, 0>>, spread |-> "Pad"],
     [kind |-> "linear", stops |-> Stops3, start |-> <<-3000, 0>>, end |-> <<3000, 1>>, spread |-> "Reflect"],
     [kind |-> "radial", stops |-> Stops3, center |-> <<4, 4>>, radius |-> <<1, 1000>>, spread |-> "Repeat"],
     [kind |-> "radial", stops |-> Stops1, center |-> <<-3000, 3000>>, radius |-> 4000, spread |-> "Pad"],
     [kind |-> "two_circle", stops |-> Stops3, c1 |-> <<4, 4>>, r1 |-> 1, c2 |-> <<4, 4>>, r2 |-> 1, spread |-> "Pad"],
     [kind |-> "two_circle", stops |-> Stops3, c1 |-> <<3, 3>>, r1 |-> 1, c2 |-> <<5, 4>>, r2 |-> 6, spread |-> "Repeat"],
     [kind |-> "sweep", stops |-> Stops3, center |-> <<4, 4>>, start_angle |-> 0, end_angle |-> 0, spread |-> "Pad"],
     [kind |-> "sweep", stops |-> Stops1, center |-> <<0, 0>>, start_angle |-> 350, end_angle |-> -20, spread |-> "Reflect"] >>
AAs == <<TRUE, FALSE>>
Rects == << <<1, 1, 4, 3>>, <<0, 0, 0, 0>>, <<2, 2, -1, -1>>, <<-3900, -3900, 7800, 7800>>, <<3, 3, 0, 5>>, <<<<1, 3>>, <<1, 7>>, <<9, 4>>, <<5, 2>>>>, <<-5, 2, 3, 1>> >>
IRects == << <<1, 1, 4, 4>>, <<3, 3, 1, 1>>, <<0, 0, 0, 0>>, <<-1000000, -1000000, 1000000, 1000000>>, <<1000000, 0, 1000001, 8>>, <<2, 0, 2, 8>>, <<0, 5, 8, 2>> >>
Opacities == << <<1, 2>>, <<0, 1>>, <<1, 1>>, <<2, 1>>, <<-1, 1>>, "NaN", "Inf", "-Inf", "Max" >>
Points == << <<0, 0>>, <<-3, 2>>, <<7, 7>>, <<1000000, -1000000>>, <<-1000000, 5>> >>
Xs == <<0, 2, -3, <<1, 2>>, 3900, -3900>>
Sizes == <<4, 0, -2, <<1, 3>>, 3000>>
MaskGeo == << <<0, 0>>, <<3, -1>>, <<-2, 7>>, <<1000000, 0>>, <<0, -1000000>> >>
Tols == << <<1, 10>>, <<1, 1000>>, 100, "Max" >>
Transforms == << <<1, 0, 0, 1, 0, 0>>, <<0, 0, 0, 0, 0, 0>>, <<1, 2, 2, 4, 1, 1>>, <<2, 0, 0, 2, -3, 1>>, <<0, 1, -1, 0, 8, 0>>, <<1, 0, 0, 0, 0, 3>> >>

\* slots per call kind: a sequence of menus
Slots(k) ==
  CASE k = "stroke" -> <<Paths, Widths, Caps, Joins, Miters, Dashes, Offsets, Alphas, Modes, Sources, AAs>>
    [] k = "fill" -> <<Paths, Alphas, Modes, Sources, AAs, <<"NonZero", "EvenOdd">> >>
    [] k = "fill_rect" -> <<Rects, Alphas, Modes, Sources, AAs>>
    [] k = "clear" -> << << <<255, 0, 255, 0>>, <<0, 0, 0, 0>>, <<1, 200, 0, 255>> >>, AAs>>
    [] k = "mask" -> <<MaskGeo, Sources, << <<2, 2>>, <<1, 1>>, <<3, 1>> >> >>
    [] k = "draw_image_at" -> <<Xs, Xs, Alphas, Modes, <<Img2, Img1>> >>
    [] k = "draw_image_with_size_at" -> <<Sizes, Sizes, Xs, Xs, Alphas, Modes, <<Img2, Img1>> >>
    [] k = "surface" -> <<IRects, Points, <<"copy_surface", "blend_surface", "blend_surface_with_alpha">>, Alphas, Modes, <<Img2, Img1>> >>
    [] k = "push_clip" -> <<Paths, Transforms>>
    [] k = "contains" -> <<Paths, Tols, Xs, Xs>>
    [] k = "flatten" -> <<Paths, Tols>>
Kinds == {"stroke", "fill", "fill_rect", "clear", "mask", "draw_image_at", "draw_image_with_size_at", "surface", "push_clip", "contains", "flatten"}
NS(k) == Len(Slots(k))
Init == /\ kind \in Kinds
        /\ si \in 1..11 /\ sj \in 1..11 /\ si <= sj /\ sj <= NS(kind)
        /\ vi \in 1..20 /\ vj \in 1..20
        /\ vi <= Len(Slots(kind)[si]) /\ vj <= Len(Slots(kind)[sj])
        /\ (si = sj => vi = vj)
Next == FALSE /\ UNCHANGED vars
Arg(s) == LET m == Slots(kind)[s] IN m[IF s = si THEN vi ELSE IF s = sj THEN vj ELSE 1]
Opts(a, m, aa) == [alpha |-> a, blend |-> m, aa |-> aa]
Style == [width |-> Arg(2), cap |-> Arg(3), join |-> Arg(4), miter |-> Arg(5), dash |-> Arg(6), dash_offset |-> Arg(7)]
MaskOf(sz) == [i \in 1..(sz[1] * sz[2]) |-> <<0, 255, 128, 1, 254, 77>>[((i - 1) % 6) + 1]]
TheCall ==
  CASE kind = "stroke" -> << [op |-> "stroke", path |-> Arg(1), style |-> Style, src |-> Arg(10), opts |-> Opts(Arg(8), Arg(9), Arg(11))] >>
    [] kind = "fill" -> << [op |-> "fill", path |-> Arg(1) @@ [winding |-> Arg(6)], src |-> Arg(4), opts |-> Opts(Arg(2), Arg(3), Arg(5))] >>
    [] kind = "fill_rect" -> << [op |-> "fill_rect", r |-> Arg(1), src |-> Arg(4), opts |-> Opts(Arg(2), Arg(3), Arg(5))] >>
    [] kind = "clear" -> << [op |-> "clear", color |-> Arg(1)] >>
    [] kind = "mask" -> << [op |-> "mask", x |-> Arg(1)[1], y |-> Arg(1)[2], mw |-> Arg(3)[1], mh |-> Arg(3)[2], data |-> MaskOf(Arg(3)), src |-> Arg(2)] >>
    [] kind = "draw_image_at" -> << [op |-> "draw_image_at", x |-> Arg(1), y |-> Arg(2), img |-> Arg(5), opts |-> Opts(Arg(3), Arg(4), TRUE)] >>
    [] kind = "draw_image_with_size_at" -> << [op |-> "draw_image_with_size_at", w |-> Arg(1), h |-> Arg(2), x |-> Arg(3), y |-> Arg(4), img |-> Arg(7),
                                                opts |-> Opts(Arg(5), Arg(6), TRUE)] >>
    [] kind = "surface" -> << [op |-> Arg(3), img |-> Arg(6), rect |-> Arg(1), dst |-> Arg(2), blend |-> Arg(5), alpha |-> Arg(4)] >>
    [] kind = "push_clip" -> << [op |-> "set_transform", m |-> Arg(2), mden |-> 1], [op |-> "push_clip", path |-> Arg(1)],
                                [op |-> "fill_rect", r |-> <<0, 0, 8, 8>>, src |-> Sources[1], opts |-> Opts(<<1, 1>>, "SrcOver", TRUE)], [op |-> "pop_clip"] >>
    [] kind = "contains" -> << [op |-> "contains", path |-> Arg(1), tol |-> Arg(2), x |-> Arg(3), y |-> Arg(4)] >>
    [] kind = "flatten" -> << [op |-> "flatten", path |-> Arg(1), tol |-> Arg(2)] >>

H0 == (si * 31 + sj * 17 + vi * 13 + vj * 7 + Len(kind) * 5 + SALT) % 10007
Prefixes ==
  << <<>>,
     << [op |-> "set_transform", m |-> <<0, 0, 0, 0, 0, 0>>, mden |-> 1] >>,
     << [op |-> "push_clip_rect", r |-> <<3, 3, 1, 1>>] >>,
     << [op |-> "push_clip_rect", r |-> <<0, 0, 1, 3>>], [op |-> "push_clip_rect", r |-> <<2, 0, 3, 3>>], [op |-> "push_layer", opacity |-> <<1, 2>>] >>,
     << [op |-> "push_layer", opacity |-> "NaN", blend |-> "Xor"] >>,
     << [op |-> "push_layer", opacity |-> <<300, 1>>], [op |-> "push_layer", opacity |-> <<-2, 1>>, blend |-> "Clear"] >>,
     << [op |-> "push_clip", path |-> Paths[7]], [op |-> "set_transform", m |-> <<2, 0, 0, 2, -3, 1>>, mden |-> 1] >>,
     << [op |-> "push_clip_rect", r |-> <<-1000000, -1000000, 1000000, 1000000>>], [op |-> "push_layer", opacity |-> <<1, 1>>] >>,
     << [op |-> "set_transform", m |-> <<1, 2, 2, 4, 1, 1>>, mden |-> 1], [op |-> "push_clip", path |-> Paths[1]] >>,
     << [op |-> "push_clip_rect", r |-> <<0, 0, 0, 0>>], [op |-> "push_layer", opacity |-> <<1, 2>>, blend |-> "SrcIn"], [op |-> "push_clip", path |-> Paths[2]] >>,
     << [op |-> "push_layer", opacity |-> "Inf"], [op |-> "push_clip_rect", r |-> <<1000000, 0, 1000001, 8>>] >>,
     << [op |-> "set_transform", m |-> <<1, 0, 0, 1, <<1, 3>>, <<-7, 9>> >>, mden |-> 1] >> >>
PopsFor(pre) == LET RECURSIVE P(_)
                    P(s) == IF s = <<>> THEN <<>>
                            ELSE LET c == s[Len(s)] rest == P(SubSeq(s, 1, Len(s) - 1))
                                 IN (IF c.op \in {"push_clip_rect", "push_clip"} THEN <<[op |-> "pop_clip"]>>
                                     ELSE IF c.op = "push_layer" THEN <<[op |-> "pop_layer"]>> ELSE <<>>) \o rest
                IN P(pre)
SizeMenu == << <<8, 8>>, <<8, 8>>, <<0, 0>>, <<0, 5>>, <<5, 0>>, <<1, 1>>, <<8, 8>> >>
Scen(j) ==
  LET h == H0 + 7919 * j
      pre == Prefixes[(h % Len(Prefixes)) + 1]
      sz == SizeMenu[((h \div 13) % Len(SizeMenu)) + 1]
  IN [id |-> ToString(<<"gd", kind, si, sj, vi, vj, j>>), fam |-> "boundary", w |-> sz[1], h |-> sz[2], den |-> 1,
      calls |-> pre \o TheCall \o PopsFor(pre)]
Emit == \A j \in 0..(NPRE - 1) : PrintT(ToJson(Scen(j)))
=============================================================================
