------------------------------- MODULE Views -------------------------------
(* C19: one pixel buffer, three views.  State: a sequence of pixels         *)
(* <<a, r, g, b>>.  Word view: the tuple itself, most significant byte      *)
(* first (A, R, G, B).  Byte view (little endian): B, G, R, A per pixel.    *)
(* PNG export: RGBA8, row-major, un-premultiplied (floor(255 c / a), alpha  *)
(* unchanged, colours of fully transparent pixels passed through).          *)
EXTENDS Fixed

WriteWord(st, i, p) == [st EXCEPT ![i] = p]                 \* i is 1-based
\* byte k (0-based) of the byte view: pixel k \div 4, channel B, G, R, A
ChanOfByte(k) == CASE k % 4 = 0 -> 4 [] k % 4 = 1 -> 3 [] k % 4 = 2 -> 2 [] k % 4 = 3 -> 1
WriteByte(st, k, v) == [st EXCEPT ![(k \div 4) + 1][ChanOfByte(k)] = v]
RECURSIVE BytesOf(_)
BytesOf(st) == IF st = <<>> THEN <<>>
               ELSE LET p == Head(st) IN <<p[4], p[3], p[2], p[1]>> \o BytesOf(Tail(st))
PngPixel(p) == IF p[1] > 0
               THEN <<((p[2] * 255) \div p[1]) % 256, ((p[3] * 255) \div p[1]) % 256, ((p[4] * 255) \div p[1]) % 256, p[1]>>
               ELSE <<p[2], p[3], p[4], 0>>
RECURSIVE PngOf(_)
PngOf(st) == IF st = <<>> THEN <<>> ELSE PngPixel(Head(st)) \o PngOf(Tail(st))
\* from_vec: the vector resized to w * h (zero-extended or truncated)
FromVec(v, n) == [i \in 1..n |-> IF i <= Len(v) THEN v[i] ELSE <<0, 0, 0, 0>>]
ApplyWrite(st, w) == IF w[1] = "word" THEN WriteWord(st, w[2] + 1, w[3]) ELSE WriteByte(st, w[2], w[3])
=============================================================================
