----------------------------- MODULE Trace_Cov -----------------------------
(* Trace validation for C01: the alpha of every pixel of a white-on-        *)
(* transparent fill of a lattice polygon is in the allowed set of           *)
(* Coverage.tla, and all four channels are equal.                           *)
EXTENDS Coverage, TLC, Json, IOUtils
Rec == ndJsonDeserialize(IOEnv.TRACE)
VARIABLE i
Init == i \in 1..Len(Rec)
Next == FALSE /\ UNCHANGED i

BadPixels(e) ==
  LET am == AllowedMap(e.loops, e.rule, e.aa, e.w, e.h)
  IN {k \in 1..(e.w * e.h) :
        ~(/\ e.pix[k][1] \in am[k]
          /\ e.pix[k][2] = e.pix[k][1] /\ e.pix[k][3] = e.pix[k][1] /\ e.pix[k][4] = e.pix[k][1])}
Partial(e) == \E k \in 1..(e.w * e.h) : e.pix[k][1] \notin {0, 255}
Check ==
  LET e == Rec[i] IN
  IF e.outcome # "ok" THEN PrintT(<<"BAD", i, e.id, e.outcome>>)
  ELSE IF Len(e.pix) # e.w * e.h THEN PrintT(<<"BAD", i, e.id, "size">>)
  ELSE LET b == BadPixels(e) IN
       IF b # {} THEN PrintT(<<"BAD", i, e.id, b>>)
       ELSE (~Partial(e)) \/ PrintT(<<"NT", i>>)
=============================================================================
