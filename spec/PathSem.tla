------------------------------ MODULE PathSem ------------------------------
(* The meaning of a path: the cursor semantics of MoveTo / LineTo / QuadTo  *)
(* / CubicTo / Close shared by filling (C01, C08, C10), flattening (C16),   *)
(* hit testing (C17), stroking and dashing (C04, C09).                      *)
(*                                                                          *)
(* Ops are tuples as they appear in scenarios and traces:                   *)
(*   <<"M", x, y>>  <<"L", x, y>>  <<"Q", cx, cy, x, y>>                    *)
(*   <<"C", c1x, c1y, c2x, c2y, x, y>>  <<"Z">>  <<"R", x, y, w, h>>        *)
(* ("R" is PathBuilder::rect and expands to M L L L Z).                     *)
EXTENDS Fixed

Kind(op) == op[1]
RectOps(op) == << <<"M", op[2], op[3]>>, <<"L", op[2] + op[4], op[3]>>,
                  <<"L", op[2] + op[4], op[3] + op[5]>>, <<"L", op[2], op[3] + op[5]>>, <<"Z">> >>
RECURSIVE Expand(_)
Expand(ops) == IF ops = <<>> THEN <<>>
               ELSE (IF Kind(Head(ops)) = "R" THEN RectOps(Head(ops)) ELSE <<Head(ops)>>) \o Expand(Tail(ops))

EndPoint(op) == CASE Kind(op) \in {"M", "L"} -> <<op[2], op[3]>>
                  [] Kind(op) = "Q" -> <<op[4], op[5]>>
                  [] Kind(op) = "C" -> <<op[6], op[7]>>
FirstCtrl(op) == <<op[2], op[3]>>
IsPolyline(ops) == \A i \in 1..Len(ops) : Kind(ops[i]) \in {"M", "L", "Z", "R"}

(* Cursor state while walking a path: cur = current point or <<>>, start =  *)
(* start of the current subpath or <<>>.                                    *)
(*   M p : cur = start = p                                                  *)
(*   drawing op with no current point: the subpath starts at the op's first *)
(*         point (LineTo: its end point; curves: their first control point) *)
(*   Z   : cur = start (a drawing op after Z continues from the start)      *)
CursorAfter(cs, op) ==
  CASE Kind(op) = "M" -> [cur |-> EndPoint(op), start |-> EndPoint(op)]
    [] Kind(op) = "Z" -> [cur |-> cs.start, start |-> cs.start]
    [] OTHER -> [cur |-> EndPoint(op),
                 start |-> IF cs.cur = <<>> THEN
                              (IF Kind(op) = "L" THEN EndPoint(op) ELSE FirstCtrl(op))
                           ELSE cs.start]
\* the point a drawing op starts from
StartOf(cs, op) == IF cs.cur # <<>> THEN cs.cur
                   ELSE IF Kind(op) = "L" THEN EndPoint(op) ELSE FirstCtrl(op)
NoCursor == [cur |-> <<>>, start |-> <<>>]

(* Fill loops of a polyline path (ops in {M, L, Z}): every subpath is        *)
(* implicitly closed; after Z the next drawing op starts a new loop at the  *)
(* old start point.                                                         *)
RECURSIVE FillLoopsRec(_, _, _, _)
FillLoopsRec(ops, loops, cur, cs) ==
  IF ops = <<>> THEN (IF Len(cur) >= 2 THEN Append(loops, cur) ELSE loops)
  ELSE LET op == Head(ops) IN
       CASE Kind(op) = "M" ->
              FillLoopsRec(Tail(ops), IF Len(cur) >= 2 THEN Append(loops, cur) ELSE loops,
                           <<EndPoint(op)>>, CursorAfter(cs, op))
         [] Kind(op) = "Z" ->
              FillLoopsRec(Tail(ops), IF Len(cur) >= 2 THEN Append(loops, cur) ELSE loops,
                           IF cs.start = <<>> THEN <<>> ELSE <<cs.start>>, CursorAfter(cs, op))
         [] Kind(op) = "L" ->
              FillLoopsRec(Tail(ops), loops,
                           IF cur = <<>> THEN <<EndPoint(op)>> ELSE Append(cur, EndPoint(op)),
                           CursorAfter(cs, op))
FillLoops(ops) == FillLoopsRec(Expand(ops), <<>>, <<>>, NoCursor)

(* all points mentioned by a path (control points included)                 *)
RECURSIVE OpPoints(_)
OpPoints(op) ==
  CASE Kind(op) \in {"M", "L"} -> {<<op[2], op[3]>>}
    [] Kind(op) = "Q" -> {<<op[2], op[3]>>, <<op[4], op[5]>>}
    [] Kind(op) = "C" -> {<<op[2], op[3]>>, <<op[4], op[5]>>, <<op[6], op[7]>>}
    [] Kind(op) = "Z" -> {}
    [] Kind(op) = "R" -> {<<op[2], op[3]>>, <<op[2] + op[4], op[3] + op[5]>>,
                          <<op[2] + op[4], op[3]>>, <<op[2], op[3] + op[5]>>}
    [] OTHER -> {}
PathPoints(ops) == UNION {OpPoints(ops[i]) : i \in 1..Len(ops)}
=============================================================================
