------------------------------- MODULE Fixed -------------------------------
(* Integer helpers shared by every raqote specification module.            *)
(* TLC integers are 32 bit and overflow is an error, TLA+ \div floors and  *)
(* % is non-negative; Rust's / truncates and >> floors.  Everything that   *)
(* mirrors fixed-point code therefore goes through the operators below.    *)
EXTENDS Integers, Sequences, FiniteSets

Abs(x)    == IF x < 0 THEN -x ELSE x
Sgn(x)    == IF x < 0 THEN -1 ELSE IF x > 0 THEN 1 ELSE 0
Min(a, b) == IF a < b THEN a ELSE b
Max(a, b) == IF a > b THEN a ELSE b
Clamp(x, lo, hi) == IF x < lo THEN lo ELSE IF x > hi THEN hi ELSE x

(* Rust integer division: truncation toward zero.  b # 0.                  *)
TruncDiv(a, b) ==
  IF (a >= 0) = (b > 0) THEN Abs(a) \div Abs(b) ELSE -(Abs(a) \div Abs(b))

(* floor and ceiling of the rational a/b, b > 0                            *)
FloorDiv(a, b) == a \div b
CeilDiv(a, b)  == -((-a) \div b)

(* arithmetic shift right = floor division by 2^n, for signed values       *)
Pow2(n) == CASE n = 0 -> 1 [] n = 1 -> 2 [] n = 2 -> 4 [] n = 3 -> 8
             [] n = 4 -> 16 [] n = 5 -> 32 [] n = 6 -> 64 [] n = 7 -> 128
             [] n = 8 -> 256 [] n = 9 -> 512 [] n = 10 -> 1024
             [] n = 11 -> 2048 [] n = 12 -> 4096 [] n = 13 -> 8192
             [] n = 14 -> 16384 [] n = 15 -> 32768 [] n = 16 -> 65536
             [] n = 17 -> 131072 [] n = 18 -> 262144 [] n = 19 -> 524288
             [] n = 20 -> 1048576 [] n = 24 -> 16777216
Shr(x, n) == x \div Pow2(n)
Shl(x, n) == x * Pow2(n)

(* round-half-up of the rational a/b, b > 0: floor(a/b + 1/2)              *)
RoundHalfUp(a, b) == (2 * a + b) \div (2 * b)
(* TRUE iff a/b is exactly an odd multiple of 1/2 (a rounding tie)         *)
IsHalf(a, b) == (2 * a) % b = 0 /\ ((2 * a) \div b) % 2 = 1

RECURSIVE GCD(_, _)
GCD(a, b) == IF b = 0 THEN a ELSE GCD(b, a % b)           \* a, b >= 0

(* integer square roots (n >= 0), by bisection on 0..46340                 *)
RECURSIVE ISqrtBis(_, _, _)
ISqrtBis(n, lo, hi) ==
  IF lo >= hi THEN lo
  ELSE LET mid == (lo + hi + 1) \div 2
       IN IF mid * mid <= n THEN ISqrtBis(n, mid, hi) ELSE ISqrtBis(n, lo, mid - 1)
ISqrtFloor(n) == ISqrtBis(n, 0, 46340)
ISqrtCeil(n)  == LET f == ISqrtFloor(n) IN IF f * f = n THEN f ELSE f + 1

(* sums / folds over sequences without recursion limits being an issue     *)
RECURSIVE SumSeq(_)
SumSeq(s) == IF s = <<>> THEN 0 ELSE Head(s) + SumSeq(Tail(s))

SeqMin(s) == CHOOSE x \in {s[i] : i \in 1..Len(s)} : \A j \in 1..Len(s) : x <= s[j]
SeqMax(s) == CHOOSE x \in {s[i] : i \in 1..Len(s)} : \A j \in 1..Len(s) : x >= s[j]
SetMin(S) == CHOOSE x \in S : \A y \in S : x <= y
SetMax(S) == CHOOSE x \in S : \A y \in S : x >= y

(* floor(a * b / c) without a 64-bit product: long multiplication by doubling. *)
(* MulDivMod(x, b, c) = <<q, r>> with x * b = q * c + r, for 0 <= x < c < 2^30,  *)
(* b >= 0 (the quotient must fit 31 bits).                                       *)
RECURSIVE MulDivMod(_, _, _)
MulDivMod(x, b, c) ==
  IF b = 0 THEN <<0, 0>>
  ELSE LET h  == MulDivMod(x, b \div 2, c)
           q2 == 2 * h[1] + (2 * h[2]) \div c
           r2 == (2 * h[2]) % c
       IN IF b % 2 = 0 THEN <<q2, r2>>
          ELSE <<q2 + (r2 + x) \div c, (r2 + x) % c>>
\* any sign of a; b >= 0; c > 0
MulDivFloor(a, b, c) ==
  LET aa == Abs(a)
      md == MulDivMod(aa % c, b, c)
      q  == (aa \div c) * b + md[1]
  IN IF a >= 0 THEN q ELSE IF md[2] = 0 THEN -q ELSE -q - 1
MulDivCeil(a, b, c) == -MulDivFloor(-a, b, c)

(* compare rationals a/b and c/d with b, d > 0, products must fit 31 bits  *)
RatLt(a, b, c, d) == a * d < c * b
RatLe(a, b, c, d) == a * d <= c * b
=============================================================================
