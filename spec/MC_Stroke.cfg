CONSTANT FIXED = TRUE
INIT MCInit
NEXT MCNext
INVARIANT Refines
CHECK_DEADLOCK FALSE
