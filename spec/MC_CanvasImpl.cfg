CONSTANTS W = 3  H = 3  PINNED = FALSE  LAYERFULL = TRUE
INIT MCInit
NEXT MCNext
INVARIANT ClipRefines
INVARIANT AllocOK
INVARIANT NoPanic
INVARIANT AccessesOK
CHECK_DEADLOCK FALSE
