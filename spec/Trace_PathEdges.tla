--------------------------- MODULE Trace_PathEdges ---------------------------
(* Binding of the path -> edge stage of DrawTarget::fill / push_clip         *)
(* (draw_target.rs: move_to / line_to / quad_to / cubic_to / close, the      *)
(* monotonic chopping of add_quad, the cubic-to-quadratic conversion, the    *)
(* transform of every control point): the edges handed to the rasteriser     *)
(* (hook verif_edges) must be the outline of the path -                      *)
(*   NEAR      every edge (points along it)    lies within TOL of the true    *)
(*             outline (Curve.tla fine loops / the harness's quantised ones),*)
(*   COVER     every vertex of the true outline lies within TOL of an edge,  *)
(*   MONO      a curve edge's control point is between its end points in y   *)
(*             (the precondition of CurveEdge.tla).                          *)
(*   CHAIN     (lattice paths) the edge sequence is exactly the one the       *)
(*             I-level cursor machine CursorImpl.FillRun produces: every line *)
(*             edge with its end points, every curve as a contiguous run of   *)
(*             curve edges from the machine's starting point to the curve's   *)
(*             end point, in order, nothing else (binds MC_Cursor's Fill      *)
(*             machine to apply_path).                                        *)
(* TOL = 1/8 px + the fine polyline's deviation bound.  A failure is a       *)
(* pointer, not a verdict on C08: the pipeline renders the input enlarged    *)
(* and Trace_Curve decides per pixel.                                        *)
EXTENDS Curve, CursorImpl, Json, IOUtils
Rec == ndJsonDeserialize(IOEnv.TRACE)
VARIABLE i
Init == i \in 1..Len(Rec)
Next == FALSE /\ UNCHANGED i
\* an edge <<sx, sy, ex, ey, curve, cx, cy>> as a polyline: a line by its end points, a quadratic by
\* its points at t = k/16 (deviation |P0 - 2 P1 + P2| / 1024, added to the tolerance)
EdgePoly(g) ==
  IF g[5] = 0 THEN << <<g[1], g[2]>>, <<g[3], g[4]>> >>
  ELSE [k \in 1..17 |-> QuadAt(<<g[1], g[2]>>, <<g[6], g[7]>>, <<g[3], g[4]>>, k - 1)]
EdgeEps(g) == IF g[5] = 0 THEN 0 ELSE Max(Abs(g[1] - 2 * g[6] + g[3]), Abs(g[2] - 2 * g[7] + g[4])) \div 1024 + 2
\* CHAIN: exp = edges of CursorImpl.FillRun in device FU, rec = recorded edges <<sx, sy, ex, ey, curve, cx, cy>>
RECURSIVE Chain(_, _)
Chain(exp, rec) ==
  IF exp = <<>> THEN rec = <<>>
  ELSE LET x == Head(exp) IN
       IF ~x[3] THEN /\ rec # <<>> /\ rec[1][5] = 0
                     /\ <<rec[1][1], rec[1][2]>> = x[1] /\ <<rec[1][3], rec[1][4]>> = x[2]
                     /\ Chain(Tail(exp), Tail(rec))
       ELSE \E n \in 1..Len(rec) :
              /\ \A k \in 1..n : rec[k][5] = 1
              /\ <<rec[1][1], rec[1][2]>> = x[1] /\ <<rec[n][3], rec[n][4]>> = x[2]
              /\ \A k \in 1..(n - 1) : <<rec[k][3], rec[k][4]>> = <<rec[k + 1][1], rec[k + 1][2]>>
              /\ Chain(Tail(exp), SubSeq(rec, n + 1, Len(rec)))
ExpEdges(ops, t, den) ==
  LET es == FillRun(ops).edges IN [k \in 1..Len(es) |-> <<DevFU(t, den, es[k][1]), DevFU(t, den, es[k][2]), es[k][3]>>]
\* long chords are split so that DistSq stays in range
Check ==
  LET e == Rec[i] IN
  IF e.outcome # "ok" \/ ~("edges" \in DOMAIN e) THEN PrintT(<<"SKIP", i, e.id>>)
  ELSE LET quant == "floops" \in DOMAIN e
           t == IF quant THEN [m |-> <<1, 0, 0, 1, 0, 0>>, mden |-> 1] ELSE [m |-> e.ctm.m, mden |-> e.ctm.mden]
           fl == IF quant THEN [loops |-> e.floops, eps |-> e.feps] ELSE FineLoops(e.ops, t, e.den)
           tol == 128 + fl.eps + 2
           \* (zero-length line edges - the closing of a subpath that is a single point - are dropped by add_edge)
           es == SelectSeq(e.edges, LAMBDA g : ~(g[5] = 0 /\ g[1] = g[3] /\ g[2] = g[4]))
           n == Len(es)
           polys == [j \in 1..n |-> EdgePoly(es[j])]
           far == {j \in 1..n : \E k \in 1..Len(polys[j]) : (k % 4 = 1 \/ k = Len(polys[j])) /\ FarFromLoops(polys[j][k], fl.loops, tol + EdgeEps(es[j]))}
           verts == UNION {{fl.loops[a][b] : b \in 1..Len(fl.loops[a])} : a \in 1..Len(fl.loops)}
           uncovered == {v \in verts : \A j \in 1..n : FarFromPolyline(v, polys[j], tol + EdgeEps(es[j]))}
           nonmono == {j \in 1..n : es[j][5] = 1 /\ (es[j][7] < Min(es[j][2], es[j][4]) - 1 \/ es[j][7] > Max(es[j][2], es[j][4]) + 1)}
       IN IF ~quant /\ ~DevExactFU(t, e.den) THEN PrintT(<<"SKIP", i, e.id>>)
          ELSE /\ (far = {} \/ PrintT(<<"EDGE", i, "NEAR", far>>))
               /\ (uncovered = {} \/ PrintT(<<"EDGE", i, "COVER", uncovered>>))
               /\ (nonmono = {} \/ PrintT(<<"EDGE", i, "MONO", nonmono>>))
               \* (zero-length line edges carry nothing and are dropped by add_edge anyway: they are left out on both
               \* sides, so that only a difference that can matter is escalated)
               /\ (quant \/ Chain(SelectSeq(ExpEdges(e.ops, t, e.den), LAMBDA x : x[3] \/ x[1] # x[2]),
                                  SelectSeq(e.edges, LAMBDA g : g[5] = 1 \/ <<g[1], g[2]>> # <<g[3], g[4]>>))
                         \/ PrintT(<<"EDGE", i, "CHAIN", Len(e.edges)>>))
=============================================================================
