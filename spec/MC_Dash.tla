------------------------------- MODULE MC_Dash -------------------------------
(* Design-level check for C09: the dasher machine (DashImpl.tla) emits       *)
(* exactly the pieces that the arc-length semantics prescribes, for every    *)
(* small path (1-2 subpaths, open and closed), dash array and offset.        *)
(* With FIXED = FALSE TLC reports the closed-subpath-inside-the-first-dash   *)
(* defect of the pinned commit as a counterexample.                          *)
EXTENDS DashImpl, Env
MAXL == EnvInt("MAXL", 3)        \* segment lengths 1..MAXL
MAXSEG == EnvInt("MAXSEG", 2)
OFFR == EnvInt("OFFR", 4)
TWO == EnvInt("TWO", 0) = 1
Entries == {1, 2, 3, 5, 9}
Arrays == {<<a>> : a \in Entries} \cup {<<a, b>> : a \in Entries, b \in Entries}
          \cup (IF EnvInt("ARR3", 0) = 1 THEN {<<a, b, c>> : a \in {1, 3}, b \in {2, 5}, c \in {1, 9}} ELSE {})
LensSet == UNION {[1..n -> 1..MAXL] : n \in 1..MAXSEG}
Subpaths == {[lens |-> l, closed |-> FALSE, lc |-> 0] : l \in LensSet}
            \cup {[lens |-> l, closed |-> TRUE, lc |-> c] : l \in LensSet, c \in 1..MAXL}
Small == {[lens |-> <<2>>, closed |-> FALSE, lc |-> 0], [lens |-> <<1, 1>>, closed |-> TRUE, lc |-> 1],
          [lens |-> <<3, 2>>, closed |-> TRUE, lc |-> 3], [lens |-> <<5>>, closed |-> FALSE, lc |-> 0]}
\* subpaths that are a single point (MoveTo alone, or MoveTo, Close): they paint nothing and must not disturb the others
Points == {[lens |-> <<>>, closed |-> FALSE, lc |-> 0], [lens |-> <<>>, closed |-> TRUE, lc |-> 0]}
\* a second subpath that continues after the Close of the first without a MoveTo
Cont(b) == [lens |-> b.lens, closed |-> b.closed, lc |-> b.lc, cont |-> TRUE]
ClosedSmall == {a \in Small : a.closed}
Init == /\ path \in (IF TWO THEN {<<a, b>> : a \in Small, b \in Subpaths \cup Points} \cup {<<a, b>> : a \in Subpaths \cup Points, b \in Small}
                              \cup {<<a, Cont(b)>> : a \in ClosedSmall, b \in Subpaths}
                     ELSE {<<a>> : a \in Subpaths})
        /\ A \in Arrays /\ off \in (-OFFR)..OFFR
        /\ sp = 0 /\ k = 0 /\ pos = 0 /\ ds = [index |-> 0, on |-> TRUE, rem |-> 0]
        /\ isFirstSeg = TRUE /\ firstDash = TRUE /\ initSeg = <<>> /\ out = <<>> /\ done = FALSE
Spec == Init /\ [][Next]_vars
=============================================================================
