---------------------------- MODULE MC_CanvasImpl ----------------------------
(* Design-level check for C02 / C03 / C05 / C06 / C07: every history (pops of  *)
(* the two stacks may cross) of clip and layer pushes (rectangles overlapping, disjoint,        *)
(* inverted, off-surface, huge; two clip paths) to depth D, followed by one   *)
(* draw (masked fill of any rectangle, the mask-less rectangle path, or       *)
(* pop_layer), satisfies ClipRefines, LayersAllocatable, NoPanic, AccessesOK. *)
EXTENDS CanvasImpl, Env
D == EnvInt("D", 3)
VARIABLE ord           \* order of the open pushes: "c" (clip) / "l" (layer)
allvars == <<vars, ord>>
Rects == {Box(1, 1, 3, 3), Box(0, 1, 2, 3), Box(2, 0, 3, 1), Box(3, 3, 1, 1), Box(-2, -2, 0, 0), Box(0, 0, 3, 3), Box(-100, -100, 100, 100), Box(0, 0, 1, 2)}
DrawBoxes == {Box(0, 0, 3, 3), Box(1, 0, 3, 2), Box(-1, -1, 2, 2), Box(1, 1, 2, 2), Box(2, 2, 5, 5), Box(0, 1, 1, 3)}
MCInit == Init /\ ord = <<>>
Build ==
  /\ phase = "build" /\ Len(ord) < D
  /\ \/ \E r \in Rects : PushClipRect(r) /\ ord' = Append(ord, "c") /\ UNCHANGED lstack
     \/ \E id \in {"p1", "p2"} : id \notin EffMask /\ PushClipPath(id) /\ ord' = Append(ord, "c") /\ UNCHANGED lstack
     \/ PushLayer /\ ord' = Append(ord, "l") /\ UNCHANGED <<cstack, pstack>>
  /\ UNCHANGED <<phase, acc, call>>
\* CROSS: the clip stack and the layer stack are popped independently (pop_clip of a clip pushed
\* before the innermost open layer, pop_layer under clips pushed inside it)
CROSS == EnvInt("CROSS", 1) = 1
RemoveLast(s, kd) == LET i == CHOOSE j \in 1..Len(s) : s[j] = kd /\ \A m \in (j + 1)..Len(s) : s[m] # kd
                     IN SubSeq(s, 1, i - 1) \o SubSeq(s, i + 1, Len(s))
Pop ==
  /\ phase = "build" /\ ord # <<>> /\ (ord[Len(ord)] = "c" \/ (CROSS /\ \E j \in 1..Len(ord) : ord[j] = "c"))
  /\ PopClip /\ ord' = RemoveLast(ord, "c")
  /\ UNCHANGED <<lstack, phase, acc, call>>
DoDraw == (\E b \in DrawBoxes, m \in BOOLEAN : Draw(b, m)) /\ UNCHANGED ord
DoPopLayer == ord # <<>> /\ (ord[Len(ord)] = "l" \/ (CROSS /\ lstack # <<>>)) /\ PopLayerDraw /\ UNCHANGED ord
MCNext == Build \/ Pop \/ DoDraw \/ DoPopLayer
\* layers must be allocatable whenever they exist
AllocOK == LayersAllocatable
=============================================================================
