INIT Init
NEXT Next
INVARIANT Tracks
INVARIANT Flat
CHECK_DEADLOCK FALSE
