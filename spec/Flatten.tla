------------------------------ MODULE Flatten ------------------------------
(* C16 (P level): what Path::flatten(tolerance) must return.                *)
(* The output contains only MoveTo / LineTo / Close; MoveTo, LineTo and     *)
(* Close ops are copied in order; every curve is replaced by a non-empty    *)
(* run of LineTo ops that ends exactly at the curve's end point, whose      *)
(* vertices lie on the curve (within the fine polyline's own error) in      *)
(* parameter order, and which -- taken from the curve's true starting       *)
(* point given by the PathSem cursor -- deviates from the curve by at most  *)
(* 8 x tolerance.  A subpath that begins with a curve (no current point)    *)
(* starts at the curve's first control point, and the output keeps that     *)
(* start as a MoveTo in front of the run - the only way "filling the        *)
(* flattened path agrees with the original" can hold for it.                *)
(* Coordinates are in 1/1024 px.                                            *)
EXTENDS Curve

Identity1 == [m |-> <<1, 0, 0, 1, 0, 0>>, mden |-> 1]
Scaled(p, den) == <<p[1] * (FU \div den), p[2] * (FU \div den)>>
\* fine polyline of a curve op starting at S (points in FU), and its error bound
FineOf(op, S, den) ==
  IF Kind(op) = "Q"
  THEN LET p0 == Scaled(S, den) p1 == Scaled(<<op[2], op[3]>>, den) p2 == Scaled(<<op[4], op[5]>>, den)
       IN [pts |-> <<p0>> \o QuadPts(p0, p1, p2), eps |-> QuadEps(p0, p1, p2)]
  ELSE LET p0 == Scaled(S, den) p1 == Scaled(<<op[2], op[3]>>, den) p2 == Scaled(<<op[4], op[5]>>, den) p3 == Scaled(<<op[6], op[7]>>, den)
       IN [pts |-> <<p0>> \o CubicPts(p0, p1, p2, p3), eps |-> CubicEps(p0, p1, p2, p3)]
OutPt(o) == <<o[2], o[3]>>

\* greedy parameter-order check: every vertex is near some fine segment whose index does not
\* decrease along the run
RECURSIVE InOrder(_, _, _, _, _)
InOrder(run, k, F, from, r) ==
  IF k > Len(run) THEN TRUE
  ELSE LET cand == {i \in from..(Len(F) - 1) : ~FarFromSeg(OutPt(run[k]), F[i], F[i + 1], r)}
       IN cand # {} /\ InOrder(run, k + 1, F, SetMin(cand), r)

\* tol8 = 8 x tolerance in FU
RunOK(op, S, den, run, tol8) ==
  LET f == FineOf(op, S, den)
      F == f.pts
      r == f.eps + 3
      poly == <<F[1]>> \o [k \in 1..Len(run) |-> OutPt(run[k])]
  IN /\ Len(run) >= 1
     /\ \A k \in 1..Len(run) : run[k][1] = "L"
     /\ OutPt(run[Len(run)]) = F[Len(F)]                       \* ends exactly at the end point
     /\ InOrder(run, 1, F, 1, r)                               \* on the curve, in parameter order
     /\ \A j \in 1..Len(F) : NearPolyline(F[j], poly, tol8 + r) \* the curve is within 8 tol of S, v1, .., vn

(* Does the output match the input?  Returns "ok" or a reason.               *)
RECURSIVE Match(_, _, _, _, _)
Match(ins, outs, cs, den, tol8) ==
  IF ins = <<>> THEN (IF outs = <<>> THEN "ok" ELSE "extra-output")
  ELSE LET op == Head(ins) IN
       IF Kind(op) \in {"M", "L"} THEN
          IF outs # <<>> /\ outs[1][1] = Kind(op) /\ OutPt(outs[1]) = Scaled(EndPoint(op), den)
          THEN Match(Tail(ins), Tail(outs), CursorAfter(cs, op), den, tol8) ELSE "op-not-copied"
       ELSE IF Kind(op) = "Z" THEN
          IF outs # <<>> /\ outs[1][1] = "Z" THEN Match(Tail(ins), Tail(outs), CursorAfter(cs, op), den, tol8)
          ELSE "close-not-copied"
       ELSE IF cs.cur = <<>> /\ ~(outs # <<>> /\ outs[1][1] = "M" /\ OutPt(outs[1]) = Scaled(StartOf(cs, op), den)) THEN
          \* a subpath begun by a curve starts at the curve's first control point; the output can only
          \* say so with a MoveTo there (without it, filling the output loses the area next to the start:
          \* MC_Cursor.FlatFillAgree, repaired by cad0158)
          "curve-start-lost"
       ELSE \* a curve: some prefix of the output is its run
          LET endp == Scaled(EndPoint(op), den)
              S == StartOf(cs, op)
              outs0 == outs
              outs1 == IF cs.cur = <<>> THEN Tail(outs0) ELSE outs0
              cands == {n \in 1..Len(outs1) : /\ \A k \in 1..n : outs1[k][1] = "L"
                                             /\ OutPt(outs1[n]) = endp}
              good == {n \in cands : RunOK(op, S, den, SubSeq(outs1, 1, n), tol8)}
              done == {n \in good : Match(Tail(ins), SubSeq(outs1, n + 1, Len(outs1)), CursorAfter(cs, op), den, tol8) = "ok"}
          IN IF cands = {} THEN "curve-does-not-end-at-end-point"
             ELSE IF good = {} THEN "curve-run-off-curve"
             ELSE IF done = {} THEN "rest-mismatch" ELSE "ok"
OnlyFlat(outs) == \A k \in 1..Len(outs) : outs[k][1] \in {"M", "L", "Z"}
=============================================================================
