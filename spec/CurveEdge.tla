----------------------------- MODULE CurveEdge -----------------------------
(* I level: a quadratic curve edge of the rasteriser (rasterizer.rs):        *)
(* compute_curve_steps / diff_to_shift / cheap_distance (the subdivision     *)
(* count), the forward-difference set-up in add_edge and ActiveEdge::step,   *)
(* transcribed with Rust's integer semantics (>> floors, / truncates).       *)
(* An edge is [x1, y1, cx, cy, x2, y2] in Dot2 (quarter pixels), already     *)
(* ordered top to bottom (y1 <= y2) and starting on or below the first       *)
(* sample row (y1 >= 0).  Run(E) is the Dot16 x position (pixels * 65536)    *)
(* the edge has on each sample row y1 .. y2-1, as the scan converter uses    *)
(* it: the initial fullx on its first row, then one step per row.            *)
(*                                                                           *)
(* P level (Curve.tla): every such position lies within a tolerance of the   *)
(* true curve (MC_CurveEdge); binding: Trace_CurveEdge compares Run(E) with  *)
(* the values the real code produced (hook verif_curve_edge).                *)
EXTENDS Fixed, TLC

MAX_COEFF_SHIFT == 6

(*--------------------------- subdivision count ---------------------------*)
CheapDistance(dx, dy) == LET ax == Abs(dx)  ay == Abs(dy)
                         IN IF ax > ay THEN ax + Shr(ay, 1) ELSE ay + Shr(ax, 1)
\* 32 - leading_zeros(v as u32): a negative value has its top bit set
RECURSIVE BitLen(_)
BitLen(v) == IF v < 0 THEN 32 ELSE IF v = 0 THEN 0 ELSE 1 + BitLen(v \div 2)
DiffToShift(dx6, dy6) == LET dist == Shr(CheapDistance(dx6, dy6) + 16, 5) IN Shr(BitLen(dist), 1)
CurveSteps(E) == DiffToShift((2 * E.cx - E.x1 - E.x2) * 16, (2 * E.cy - E.y1 - E.y2) * 16)
ClampShift(s) == IF s = 0 THEN 1 ELSE IF s > MAX_COEFF_SHIFT THEN MAX_COEFF_SHIFT ELSE s

(*------------------------------- set-up ----------------------------------*)
\* state of an active curve edge
\* [fullx, next_x, next_y, dx, ddx, dy, ddy, old_x, old_y, slope, shift, count, x2, y2, ovf]
\* the "increment until next_y is below the row" loop shared by add_edge and step
RECURSIVE Advance(_, _)
Advance(e, cury) ==
  IF e.count > 0 /\ cury >= Shr(e.next_y, 14)
  THEN Advance([e EXCEPT !.next_x = @ + Shr(e.dx, e.shift), !.dx = @ + e.ddx,
                         !.next_y = @ + Shr(e.dy, e.shift), !.dy = @ + e.ddy, !.count = @ - 1], cury)
  ELSE e
Land(e) == IF e.count = 0 THEN [e EXCEPT !.next_y = e.y2 * 16384, !.next_x = e.x2 * 16384] ELSE e

\* div_fixed16_fixed16(a, b) = trunc((a << 16) / b); "ovf" when the quotient leaves 31 bits
DivFixed(a, b) ==
  LET aa == Abs(a)  bb == Abs(b) IN
  IF bb = 0 \/ aa \div bb >= 16384 THEN [ovf |-> TRUE, v |-> 0]
  ELSE LET q == MulDivFloor(aa, 65536, bb) IN [ovf |-> FALSE, v |-> IF (a >= 0) = (b > 0) THEN q ELSE -q]

Setup(E) ==
  LET shift == ClampShift(CurveSteps(E))
      A  == (E.x1 - E.cx - E.cx + E.x2) * 8192
      B  == E.cx - E.x1
      Ay == (E.y1 - E.cy - E.cy + E.y2) * 8192
      By == E.cy - E.y1
      dx0 == 2 * Shr(A, shift) + 2 * B * 16384
      ddx == 2 * Shr(A, shift - 1)
      dy0 == 2 * Shr(Ay, shift) + 2 * By * 16384
      ddy == 2 * Shr(Ay, shift - 1)
      fullx == E.x1 * 16384
      cury == E.y1
      e0 == [fullx |-> fullx, next_x |-> fullx + Shr(dx0, shift), next_y |-> cury * 16384 + Shr(dy0, shift),
             dx |-> dx0 + ddx, ddx |-> ddx, dy |-> dy0 + ddy, ddy |-> ddy, old_x |-> 0, old_y |-> 0, slope |-> 0,
             shift |-> shift, count |-> Pow2(shift) - 1, x2 |-> E.x2, y2 |-> E.y2, ovf |-> FALSE]
      e1 == Land(Advance(e0, cury))
      rows == Shr(e1.next_y - cury * 16384, 14)
  IN IF rows = 0 THEN [e1 EXCEPT !.ovf = TRUE]
     ELSE [e1 EXCEPT !.slope = TruncDiv(e1.next_x - fullx, rows)]

(*--------------------------------- step ----------------------------------*)
Step(e, cury) ==
  IF cury >= Shr(e.next_y, 14)
  THEN LET a == [e EXCEPT !.old_y = e.next_y, !.old_x = e.next_x, !.fullx = e.next_x]
           b == Land(Advance(a, cury))
           c == IF cury + 1 < b.y2
                THEN LET d == DivFixed(b.next_x - b.old_x, b.next_y - b.old_y)
                     IN IF d.ovf THEN [b EXCEPT !.ovf = TRUE] ELSE [b EXCEPT !.slope = Shr(d.v, 2)]
                ELSE b
       IN [c EXCEPT !.fullx = @ + c.slope]
  ELSE [e EXCEPT !.fullx = @ + e.slope]

\* the x positions on rows y1 .. y2 - 1
RECURSIVE Rows(_, _, _)
Rows(e, cury, acc) ==
  LET s == Step(e, cury) IN
  IF s.ovf THEN [ovf |-> TRUE, xs |-> acc]
  ELSE IF cury + 1 >= e.y2 THEN [ovf |-> FALSE, xs |-> acc]
  ELSE Rows(s, cury + 1, Append(acc, s.fullx))
Run(E) == LET e == Setup(E) IN
          IF E.y1 >= E.y2 THEN [ovf |-> FALSE, xs |-> <<>>, shift |-> 0]
          ELSE IF e.ovf THEN [ovf |-> TRUE, xs |-> <<>>, shift |-> e.shift]
          ELSE LET r == Rows(e, E.y1, <<e.fullx>>) IN [ovf |-> r.ovf, xs |-> r.xs, shift |-> e.shift]
=============================================================================
