----------------------------- MODULE Gen_Routes -----------------------------
(* Generator of two-route scenarios.                                        *)
(*  KIND = "fastpath" (C14): every integer rectangle x, y in XMIN..XMAX,    *)
(*     w, h in WMIN..WMAX on a 4 x 4 destination; the route pair, blend     *)
(*     mode, source and alpha are a hash of the rectangle (all pairs with   *)
(*     NVAR = 4).                                                           *)
(*  KIND = "xform" (C11): transform menu x shape menu; fill under T versus  *)
(*     fill of Path::transform(T); device-space calls under T versus under  *)
(*     the identity; singular T versus nothing.                             *)
EXTENDS Integers, Sequences, TLC, Json, Env
KIND == EnvStr("KIND", "fastpath")
XMIN == EnvInt("XMIN", -2)
XMAX == EnvInt("XMAX", 6)
WMIN == EnvInt("WMIN", -3)
WMAX == EnvInt("WMAX", 6)
NVAR == EnvInt("NVAR", 1)
SALT == EnvInt("SALT", 0)
VARIABLES a1, a2, a3, a4
vars == <<a1, a2, a3, a4>>

Modes == <<"Dst", "Src", "Clear", "SrcOver", "DstOver", "SrcIn", "DstIn", "SrcOut", "DstOut", "SrcAtop",
           "DstAtop", "Xor", "Add", "Screen", "Overlay", "Darken", "Lighten", "ColorDodge", "ColorBurn",
           "HardLight", "SoftLight", "Difference", "Exclusion", "Multiply", "Hue", "Saturation", "Color",
           "Luminosity">>
Solid(c) == [kind |-> "solid", c |-> c]
Img2 == [w |-> 2, h |-> 2, data |-> << <<255, 255, 0, 0>>, <<128, 0, 128, 0>>, <<255, 0, 0, 255>>, <<64, 32, 16, 8>> >>]
Img3 == [w |-> 3, h |-> 2, data |-> << <<255, 10, 20, 30>>, <<200, 200, 0, 100>>, <<0, 0, 0, 0>>,
                                        <<255, 255, 255, 255>>, <<90, 45, 90, 1>>, <<255, 0, 255, 0>> >>]
Sources ==
  << Solid(<<255, 255, 0, 0>>), Solid(<<128, 64, 0, 32>>), Solid(<<0, 0, 0, 0>>), Solid(<<200, 10, 200, 100>>),
     [kind |-> "image", img |-> Img2, extend |-> "Pad", filter |-> "Nearest", m |-> <<1, 0, 0, 1, -1, -1>>, mden |-> 1],
     [kind |-> "image", img |-> Img3, extend |-> "Repeat", filter |-> "Bilinear", m |-> <<1, 0, 0, 1, 1, 0>>, mden |-> 2],
     [kind |-> "linear", stops |-> << << <<0, 1>>, <<255, 255, 0, 0>> >>, << <<1, 1>>, <<128, 0, 0, 255>> >> >>,
      start |-> <<0, 0>>, end |-> <<4, 0>>, spread |-> "Reflect"] >>
Alphas == << <<1, 1>>, <<1, 2>>, <<0, 1>> >>
\* independent mixed-radix digits of k: route (4 or 5), blend mode (28), alpha (3), source (7), aa (3), extra (13)
DRoute(k, n) == (k % 5) % n
DMode(k)   == (k \div 5) % 28
DAlpha(k)  == (k \div 140) % 3
DSrc(k)    == (k \div 420) % 7
DAA(k)     == (k \div 2940) % 3
DExtra(k)  == (k \div 8820) % 13
Opts(k) == [blend |-> Modes[DMode(k) + 1], alpha |-> Alphas[DAlpha(k) + 1], aa |-> DAA(k) # 0]
Src(k) == Sources[DSrc(k) + 1]
W == 4
H == 4
Full == [op |-> "push_clip_rect", r |-> <<0, 0, W, H>>]
PopC == [op |-> "pop_clip"]

(*------------------------------- fastpath --------------------------------*)
FastPair(x, y, w, h, k) ==
  LET route == DRoute(k, 4)
      r == <<x, y, w, h>>
      fr == [op |-> "fill_rect", r |-> r, src |-> Src(k), opts |-> Opts(k)]
      img == IF DExtra(k) % 2 = 0 THEN Img2 ELSE Img3
      col == << <<255, 0, 255, 0>>, <<0, 0, 0, 0>>, <<100, 100, 50, 0>> >>[(DExtra(k) % 3) + 1]
  IN CASE route = 0 -> [a |-> <<fr>>,
                        b |-> <<[op |-> "fill", path |-> [ops |-> << <<"R", x, y, w, h>> >>], src |-> Src(k), opts |-> Opts(k)]>>]
       [] route = 1 -> [a |-> <<fr>>, b |-> <<Full, fr, PopC>>]
       [] route = 2 -> [a |-> <<[op |-> "clear", color |-> col]>>,
                        b |-> <<Full, [op |-> "clear", color |-> col], PopC>>]
       [] route = 3 -> [a |-> <<[op |-> "draw_image_at", x |-> x, y |-> y, img |-> img, opts |-> Opts(k)]>>,
                        b |-> <<[op |-> "fill_rect", r |-> <<x, y, img.w, img.h>>,
                                 src |-> [kind |-> "image", img |-> img, extend |-> "Pad", filter |-> "Bilinear",
                                          m |-> <<1, 0, 0, 1, -x, -y>>, mden |-> 1],
                                 opts |-> Opts(k)]>>]

(*--------------------------------- xform ---------------------------------*)
T(m, d) == [op |-> "set_transform", m |-> m, mden |-> d]
Transforms ==
  << T(<<4, 0, 0, 4, 1, 2>>, 4), T(<<1, 0, 0, 1, 1, -1>>, 1), T(<<2, 0, 0, 2, -1, 0>>, 1), T(<<1, 0, 0, 1, 0, 0>>, 2),
     T(<<0, 1, -1, 0, 4, 0>>, 1), T(<<-1, 0, 0, 1, 4, 0>>, 1), T(<<1, 0, 1, 1, 0, 0>>, 1), T(<<2, 0, 0, 1, 0, 1>>, 1),
     T(<<3, 4, -4, 3, 10, 0>>, 5), T(<<5, 12, -12, 5, 20, -3>>, 13), T(<<7, 3, -2, 9, 1, 1>>, 8), T(<<1, 0, 0, 1, 1, 3>>, 3),
     T(<<0, 0, 0, 0, 1, 1>>, 1), T(<<1, 2, 2, 4, 0, 0>>, 1), T(<<1, 1, 1, 1, 0, 0>>, 1) >>
NSing == 3          \* the last three are singular
Path(ops) == [ops |-> ops]
Shapes == << Path(<< <<"M", 0, 0>>, <<"L", 12, 0>>, <<"L", 0, 12>>, <<"Z">> >>),
             Path(<< <<"R", 1, 2, 9, 7>> >>),
             Path(<< <<"M", 2, 3>>, <<"Q", 14, 1, 12, 12>>, <<"L", 3, 10>> >>),
             Path(<< <<"M", 1, 1>>, <<"C", 16, 2, -4, 14, 12, 13>>, <<"Z">>, <<"L", 8, 0>> >>),
             Path(<< <<"L", 2, 2>>, <<"L", 14, 4>>, <<"L", 6, 14>> >>),
             [ops |-> << <<"M", 1, 1>>, <<"L", 15, 13>>, <<"L", 15, 1>>, <<"L", 1, 13>> >>, winding |-> "EvenOdd"],
             Path(<< <<"M", -20, 3>>, <<"L", 30, 5>>, <<"L", 30, 6>> >>) >>
MaskData == <<0, 1, 127, 128, 254, 255>>
XformPair(ti, si, k) ==
  LET t == Transforms[ti]
      sing == ti > Len(Transforms) - NSing
      sh == Shapes[si]
      route == DRoute(k, 5)
      fillc == [op |-> "fill", path |-> sh, src |-> Sources[(DSrc(k) % 4) + 1], opts |-> Opts(k)]
      id == T(<<1, 0, 0, 1, 0, 0>>, 1)
      cr == [op |-> "push_clip_rect", r |-> <<1, 0, 3, 4>>]
      fr == [op |-> "fill_rect", r |-> <<0, 0, 16, 16>>, src |-> Src(k), opts |-> Opts(k)]
      mk == [op |-> "mask", x |-> DExtra(k) % 3, y |-> (DAA(k) % 3) - 1, mw |-> 3, mh |-> 2,
             data |-> MaskData, src |-> Sources[(DSrc(k) % 4) + 1]]
      csops == <<"copy_surface", "blend_surface", "blend_surface_with_alpha">>
      cs == [op |-> csops[DAA(k) + 1],
             img |-> Img3, rect |-> <<0, 0, 3, 2>>, dst |-> <<(DExtra(k) % 4) - 1, (DAlpha(k) % 4) - 1>>,
             blend |-> Modes[DMode(k) + 1], alpha |-> <<1, 2>>]
  IN IF sing THEN [a |-> <<t, IF DExtra(k) % 2 = 0 THEN fillc
                               ELSE [op |-> "fill_rect", r |-> <<1, 1, 8, 8>>, src |-> Src(k), opts |-> Opts(k)]>>,
                   b |-> <<>>]
     ELSE CASE route \in {0, 1} -> [a |-> <<t, fillc>>,
                                   b |-> <<[op |-> "fill", path |-> sh, pretransform |-> [m |-> t.m, mden |-> t.mden],
                                            src |-> Sources[(DSrc(k) % 4) + 1], opts |-> Opts(k)]>>]
            [] route = 2 -> [a |-> <<t, cr, id, fr, PopC>>, b |-> <<cr, fr, PopC>>]
            [] route = 3 -> [a |-> <<t, mk>>, b |-> <<mk>>]
            [] route = 4 -> [a |-> <<t, cs>>, b |-> <<cs>>]

Init ==
  IF KIND = "fastpath"
  THEN a1 \in XMIN..XMAX /\ a2 \in XMIN..XMAX /\ a3 \in WMIN..WMAX /\ a4 \in WMIN..WMAX
  ELSE a1 \in 1..Len(Transforms) /\ a2 \in 1..Len(Shapes) /\ a3 \in 0..(EnvInt("NK", 6) - 1) /\ a4 = 0
Next == FALSE /\ UNCHANGED vars
\* a scrambled index: successive j, and neighbouring rectangles, reach unrelated digit combinations
H0 == ((a1 + 9) * 7919 + (a2 + 9) * 104729 + (a3 + 9) * 1299709 + (a4 + 9) * 15485863 + SALT * 101) % 114661
Scen(j) ==
  LET k == (H0 * 31 + 28657 * j) % 114660
      pr == IF KIND = "fastpath" THEN FastPair(a1, a2, a3, a4, k) ELSE XformPair(a1, a2, k + a3 * 37)
  IN [id |-> ToString(<<"gr", KIND, a1, a2, a3, a4, j>>), fam |-> "routes", w |-> W, h |-> H,
      den |-> IF KIND = "fastpath" THEN 1 ELSE 4, init |-> "distinct", a |-> pr.a, b |-> pr.b]
Emit == \A j \in 0..(NVAR - 1) : PrintT(ToJson(Scen(j)))
=============================================================================
