------------------------------- MODULE Stroke -------------------------------
(* C04 / C09 (P level): the region painted by stroking polylines.           *)
(*                                                                          *)
(* The region is a union of convex pieces: one rectangle of the stroke      *)
(* width per segment; at every interior vertex (and at the closing vertex   *)
(* of closed subpaths) the join piece on the outer side: bevel = triangle,  *)
(* miter = quadrilateral when within the miter limit (bevel otherwise),     *)
(* round = disc around the vertex (rectangles + outer sector = rectangles + *)
(* disc); at both ends of open subpaths the cap piece: square = rectangle,  *)
(* round = disc.  Pieces are computed in device space in units of 1/64 px   *)
(* with integer arithmetic; the rounding (at most EPS units per vertex) is  *)
(* added to the property's margin, so it can only turn a verdict into       *)
(* "free", never into an alarm.                                             *)
(*                                                                          *)
(* Segments must have integer length in path units (axis-parallel or        *)
(* Pythagorean directions); the transform must be a similarity for round    *)
(* pieces (discs stay discs).                                               *)
EXTENDS Geom, PathSem, TLC

U == 64          \* device units per pixel
EPS == 3         \* bound on the accumulated rounding of a piece vertex, in units

RoundDiv(a, b) == (2 * a + b) \div (2 * b)          \* b > 0

(*------------------------------ subpaths ---------------------------------*)
(* Stroke subpaths of a polyline path: sequences of points with a closed    *)
(* flag; a drawing op after Close starts a new subpath at the old start.    *)
RECURSIVE SubpathsRec(_, _, _, _)
SubpathsRec(ops, acc, cur, cs) ==
  LET flush == IF Len(cur) >= 1 THEN Append(acc, [pts |-> cur, closed |-> FALSE]) ELSE acc IN
  IF ops = <<>> THEN flush
  ELSE LET op == Head(ops) IN
       CASE Kind(op) = "M" -> SubpathsRec(Tail(ops), flush, <<EndPoint(op)>>, CursorAfter(cs, op))
         [] Kind(op) = "Z" ->
              SubpathsRec(Tail(ops),
                          IF Len(cur) >= 1 THEN Append(acc, [pts |-> cur, closed |-> TRUE]) ELSE acc,
                          IF cs.start = <<>> THEN <<>> ELSE <<cs.start>>, CursorAfter(cs, op))
         [] Kind(op) = "L" ->
              SubpathsRec(Tail(ops), acc,
                          IF cur = <<>> THEN <<EndPoint(op)>> ELSE Append(cur, EndPoint(op)), CursorAfter(cs, op))
Subpaths(ops) == SubpathsRec(Expand(ops), <<>>, <<>>, NoCursor)

\* drop repeated points (zero-length segments are ignored by the stroker)
RECURSIVE Dedup(_)
Dedup(s) == IF Len(s) <= 1 THEN s
            ELSE IF s[1] = s[2] THEN Dedup(Tail(s)) ELSE <<s[1]>> \o Dedup(Tail(s))

SegLen2(a, b) == (b[1] - a[1]) * (b[1] - a[1]) + (b[2] - a[2]) * (b[2] - a[2])
SegLen(a, b) == ISqrtFloor(SegLen2(a, b))
IntegerLen(a, b) == SegLen(a, b) * SegLen(a, b) = SegLen2(a, b)
\* all segments (incl. the closing one) have integer length
SubpathOK(sp) ==
  LET p == Dedup(sp.pts) n == Len(p) IN
  /\ \A i \in 1..(n - 1) : IntegerLen(p[i], p[i + 1])
  /\ (sp.closed /\ n >= 2) => IntegerLen(p[n], p[1])

(*------------------------------- geometry --------------------------------*)
(* st = [w, den, cap, join, miter (<<n, d>>), t (m, mden)]; points are in   *)
(* units of 1/den.  Device point in 1/64 px of user point p (in 1/den) plus *)
(* an offset vector o (in 1/(den*L), L the divisor).                        *)
Dev(st, p, ox, oy, L) ==
  LET m == st.t.m  md == st.t.mden
      \* user coordinates times den * L:  X = p * L + o
      X == p[1] * L + ox   Y == p[2] * L + oy
  IN <<RoundDiv((X * m[1] + Y * m[3]) * U + m[5] * U * st.den * L, st.den * L * md),
       RoundDiv((X * m[2] + Y * m[4]) * U + m[6] * U * st.den * L, st.den * L * md)>>
\* unit direction of a segment as <<dx, dy, len>> in lowest terms (keeps the 31-bit arithmetic
\* of the miter tip small when coordinates have been scaled up)
Dir(a, b) == LET dx == b[1] - a[1]  dy == b[2] - a[2]  l == SegLen(a, b)
                 g == GCD(GCD(Abs(dx), Abs(dy)), l)
             IN <<dx \div g, dy \div g, l \div g>>
\* half-width offset along the left normal (-dy, dx) / len of direction d, times the sign s,
\* expressed over the divisor 2 * len:  (w / 2) * n = w * (-dy, dx) / (2 len)
NormOff(st, d, s) == <<-s * st.w * d[2], s * st.w * d[1], 2 * d[3]>>

\* rectangle around segment a-b
RectPiece(st, a, b) ==
  LET d == Dir(a, b)
      o == NormOff(st, d, 1)
  IN [kind |-> "poly", v |-> <<Dev(st, a, o[1], o[2], o[3]), Dev(st, b, o[1], o[2], o[3]),
                               Dev(st, b, -o[1], -o[2], o[3]), Dev(st, a, -o[1], -o[2], o[3])>>]
\* square cap at point p leaving in direction d (unit direction <<dx, dy, len>> pointing out of the path)
SquareCap(st, p, d) ==
  LET L == 2 * d[3]
      nx == -st.w * d[2]  ny == st.w * d[1]          \* half-width normal offset
      ex == st.w * d[1]   ey == st.w * d[2]          \* half-width extension along d
  IN [kind |-> "poly", v |-> <<Dev(st, p, nx, ny, L), Dev(st, p, nx + ex, ny + ey, L),
                               Dev(st, p, -nx + ex, -ny + ey, L), Dev(st, p, -nx, -ny, L)>>]
\* scale factor of a similarity: sqrt(|det|); the generators use det in {1, 4, 1/4} * mden^2
DetT(st) == st.t.m[1] * st.t.m[4] - st.t.m[2] * st.t.m[3]
IsSimilarity(st) == LET m == st.t.m IN
  (m[1] = m[4] /\ m[2] = -m[3]) \/ (m[1] = -m[4] /\ m[2] = m[3])
DiscPiece(st, p) ==
  LET s2 == Abs(DetT(st))                              \* scale^2 * mden^2
      s == ISqrtFloor(s2)
  IN [kind |-> "disc", c |-> Dev(st, p, 0, 0, 1),
      r |-> RoundDiv(st.w * U * s, 2 * st.den * st.t.mden), exact |-> s * s = s2 /\ IsSimilarity(st)]

\* join at vertex p between incoming direction d1 and outgoing direction d2
Turn(d1, d2) == d1[1] * d2[2] - d1[2] * d2[1]          \* > 0: turns to the left normal's side
DotD(d1, d2) == d1[1] * d2[1] + d1[2] * d2[2]
\* la, lb: lengths (path units) of the two segments meeting at p.  A round join is the outer
\* sector only; together with the two segment rectangles it covers the whole disc around the
\* vertex when both segments are at least half the width long, otherwise the disc is left open.
JoinPieces(st, p, d1, d2, la, lb) ==
  LET tr == Turn(d1, d2)
      longEnough == 2 * la >= st.w /\ 2 * lb >= st.w
      disc == IF longEnough THEN DiscPiece(st, p) ELSE [kind |-> "freedisc"] @@ DiscPiece(st, p)
      \* the outer side is opposite to the turn: with left normal n = (-dy, dx), a turn with
      \* tr > 0 bends towards +n, so the outer side is -n
      s == IF tr > 0 THEN -1 ELSE 1
      o1 == NormOff(st, d1, s)  o2 == NormOff(st, d2, s)
      A == Dev(st, p, o1[1], o1[2], o1[3])
      B == Dev(st, p, o2[1], o2[2], o2[3])
      P == Dev(st, p, 0, 0, 1)
      bevel == [kind |-> "poly", v |-> <<P, A, B>>]
      \* miter test of the stroker: 2 <= ml^2 (1 - in.out) with in.out = -(n1.n2) = -(d1.d2)/(l1 l2)
      \* i.e. 2 l1 l2 md^2 <= mn^2 (l1 l2 + d1.d2)
      mn == st.miter[1]  md == st.miter[2]
      ll == d1[3] * d2[3]
      mitered == 2 * ll * md * md <= mn * mn * (ll + DotD(d1, d2))
      \* miter tip = p + (w/2) (n1 + n2) / (1 + n1.n2) = p + w s (-(d1y l2 + d2y l1), d1x l2 + d2x l1) / (2 (l1 l2 + d1.d2))
      D == ll + DotD(d1, d2)
      X == Dev(st, p, -s * st.w * (d1[2] * d2[3] + d2[2] * d1[3]), s * st.w * (d1[1] * d2[3] + d2[1] * d1[3]), 2 * D)
  IN IF tr = 0 THEN
        \* straight on: nothing; reversal: the join is degenerate for bevel/miter and a
        \* half disc of unspecified side for round (left open)
        (IF DotD(d1, d2) < 0 /\ st.join = "Round" THEN <<[kind |-> "freedisc"] @@ DiscPiece(st, p)>> ELSE <<>>)
     ELSE CASE st.join = "Round" -> <<disc>>
            [] st.join = "Bevel" -> <<bevel>>
            [] st.join = "Miter" -> IF mitered /\ D > 0 THEN <<[kind |-> "poly", v |-> <<P, A, X, B>>]>> ELSE <<bevel>>

\* la: length of the segment the cap sits on (a round cap is a half disc: with the segment's
\* rectangle it covers the whole disc when the segment is at least half the width long)
CapPieces(st, p, dout, la) ==
  CASE st.cap = "Butt" -> <<>>
    [] st.cap = "Square" -> <<SquareCap(st, p, dout)>>
    [] st.cap = "Round" -> IF 2 * la >= st.w THEN <<DiscPiece(st, p)>> ELSE <<[kind |-> "freedisc"] @@ DiscPiece(st, p)>>
Neg(d) == <<-d[1], -d[2], d[3]>>

RECURSIVE SegPieces(_, _, _)
SegPieces(st, p, i) ==
  IF i >= Len(p) THEN <<>>
  ELSE <<RectPiece(st, p[i], p[i + 1])>> \o SegPieces(st, p, i + 1)
RECURSIVE InnerJoins(_, _, _)
InnerJoins(st, p, i) ==
  IF i >= Len(p) THEN <<>>
  ELSE JoinPieces(st, p[i], Dir(p[i - 1], p[i]), Dir(p[i], p[i + 1]), SegLen(p[i - 1], p[i]), SegLen(p[i], p[i + 1])) \o InnerJoins(st, p, i + 1)

SubpathPieces(st, sp) ==
  LET p0 == Dedup(sp.pts)
      \* an explicit return to the start point before Close is the same closed outline
      p == IF sp.closed /\ Len(p0) >= 2 /\ p0[1] = p0[Len(p0)] THEN SubSeq(p0, 1, Len(p0) - 1) ELSE p0
      n == Len(p)
  IN IF n < 2 THEN <<>>
     ELSE IF ~sp.closed THEN
        SegPieces(st, p, 1) \o InnerJoins(st, p, 2)
        \o CapPieces(st, p[1], Neg(Dir(p[1], p[2])), SegLen(p[1], p[2])) \o CapPieces(st, p[n], Dir(p[n - 1], p[n]), SegLen(p[n - 1], p[n]))
     ELSE IF n = 2 THEN
        \* out and back: two coincident rectangles and reversal joins
        SegPieces(st, p, 1) \o JoinPieces(st, p[2], Dir(p[1], p[2]), Dir(p[2], p[1]), SegLen(p[1], p[2]), SegLen(p[1], p[2]))
                            \o JoinPieces(st, p[1], Dir(p[2], p[1]), Dir(p[1], p[2]), SegLen(p[1], p[2]), SegLen(p[1], p[2]))
     ELSE SegPieces(st, p, 1) \o <<RectPiece(st, p[n], p[1])>> \o InnerJoins(st, p, 2)
          \o JoinPieces(st, p[n], Dir(p[n - 1], p[n]), Dir(p[n], p[1]), SegLen(p[n - 1], p[n]), SegLen(p[n], p[1]))
          \o JoinPieces(st, p[1], Dir(p[n], p[1]), Dir(p[1], p[2]), SegLen(p[n], p[1]), SegLen(p[1], p[2]))
RECURSIVE AllPieces(_, _, _)
AllPieces(st, sps, i) == IF i > Len(sps) THEN <<>> ELSE SubpathPieces(st, sps[i]) \o AllPieces(st, sps, i + 1)
Pieces(st, sps) == IF st.w <= 0 THEN <<>> ELSE AllPieces(st, sps, 1)

(*------------------------- pixel classification --------------------------*)
\* signed double area of a polygon (sequence of points)
RECURSIVE Area2(_, _)
Area2(v, i) == IF i > Len(v) THEN 0
               ELSE LET a == v[i] b == v[IF i = Len(v) THEN 1 ELSE i + 1]
                    IN a[1] * b[2] - a[2] * b[1] + Area2(v, i + 1)
NormLen(n1, n2) == ISqrtCeil(n1 * n1 + n2 * n2)
\* A polygon prepared for pixel tests: its edges as outward half-planes
\* <<n1, n2, c, |n|>> (n . x <= c inside), its bounding box, and whether it has area.
Prepared(v) ==
  LET sg == Sgn(Area2(v, 1))
      E(i) == LET a == v[i] b == v[IF i = Len(v) THEN 1 ELSE i + 1]
                  n1 == sg * (b[2] - a[2])  n2 == -sg * (b[1] - a[1])
              IN <<n1, n2, n1 * a[1] + n2 * a[2], NormLen(n1, n2)>>
      xs == {v[i][1] : i \in 1..Len(v)}  ys == {v[i][2] : i \in 1..Len(v)}
  IN [kind |-> "poly", ok |-> sg # 0, hp |-> [i \in 1..Len(v) |-> E(i)],
      bb |-> <<SetMin(xs), SetMin(ys), SetMax(xs), SetMax(ys)>>]
PreparePiece(pc) == IF pc.kind = "poly" THEN Prepared(pc.v) ELSE pc
PreparedPieces(st, sps) == LET ps == Pieces(st, sps) IN [i \in 1..Len(ps) |-> PreparePiece(ps[i])]

\* extreme values of n . x over the pixel square [px, px+1] x [py, py+1] (in units)
MaxDot(h, px, py) == h[1] * px * U + h[2] * py * U + Max(h[1], 0) * U + Max(h[2], 0) * U
MinDot(h, px, py) == h[1] * px * U + h[2] * py * U + Min(h[1], 0) * U + Min(h[2], 0) * U

\* pixel square inside the polygon eroded by mg units
PolyContains(pc, px, py, mg) ==
  /\ pc.ok
  /\ pc.bb[1] <= px * U /\ (px + 1) * U <= pc.bb[3] /\ pc.bb[2] <= py * U /\ (py + 1) * U <= pc.bb[4]
  /\ \A i \in 1..Len(pc.hp) : LET h == pc.hp[i] IN h[3] - MaxDot(h, px, py) >= mg * h[4]
\* pixel square separated from the polygon dilated by mg units: by one of the pixel's own
\* axes (bounding box) or by one of the polygon's edge normals
PolySeparated(pc, px, py, mg) ==
  \/ ~pc.ok
  \/ pc.bb[3] <= px * U - mg \/ pc.bb[1] >= (px + 1) * U + mg
  \/ pc.bb[4] <= py * U - mg \/ pc.bb[2] >= (py + 1) * U + mg
  \/ \E i \in 1..Len(pc.hp) : LET h == pc.hp[i] IN
        (h[1] # 0 \/ h[2] # 0) /\ MinDot(h, px, py) - h[3] >= mg * h[4]
DiscContains(pc, px, py, mg) ==
  /\ pc.exact /\ pc.r - mg > 0
  /\ \A x \in {<<px * U, py * U>>, <<(px + 1) * U, py * U>>, <<px * U, (py + 1) * U>>, <<(px + 1) * U, (py + 1) * U>>} :
       (x[1] - pc.c[1]) * (x[1] - pc.c[1]) + (x[2] - pc.c[2]) * (x[2] - pc.c[2]) <= (pc.r - mg) * (pc.r - mg)
DiscSeparated(pc, px, py, mg) ==
  LET nx == Clamp(pc.c[1], px * U, (px + 1) * U)  ny == Clamp(pc.c[2], py * U, (py + 1) * U)
      \* when the transform is not a similarity the disc is an ellipse; the generators only
      \* use similarities with round pieces, otherwise the piece is never "separated"
  IN pc.exact /\ (nx - pc.c[1]) * (nx - pc.c[1]) + (ny - pc.c[2]) * (ny - pc.c[2]) > (pc.r + mg) * (pc.r + mg)

PieceContains(pc, px, py, mg) ==
  CASE pc.kind = "poly" -> PolyContains(pc, px, py, mg)
    [] pc.kind = "disc" -> DiscContains(pc, px, py, mg)
    [] OTHER -> FALSE
PieceSeparated(pc, px, py, mg) ==
  CASE pc.kind = "poly" -> PolySeparated(pc, px, py, mg)
    [] OTHER -> DiscSeparated(pc, px, py, mg)

(* "in": must be 255, "out": must be untouched, "free" otherwise.  pcs are  *)
(* prepared pieces; margin in units of 1/64 px (the property's margin; EPS  *)
(* is added here).                                                          *)
Classify(pcs, px, py, margin) ==
  IF \E i \in 1..Len(pcs) : PieceContains(pcs[i], px, py, margin + EPS) THEN "in"
  ELSE IF \A i \in 1..Len(pcs) : PieceSeparated(pcs[i], px, py, margin + EPS) THEN "out"
  ELSE "free"
=============================================================================
