----------------------------- MODULE MC_Surface -----------------------------
(* Design-level check for C15: the index arithmetic of composite_surface    *)
(* (I level) refines block transfer (P level) on every combination of small *)
(* sizes, rectangles and offsets.  FIXED selects the code variant.          *)
EXTENDS Surface, TLC, Env
MaxSize == EnvInt("MAXSIZE", 2)
CMin == EnvInt("CMIN", -1)
CMax == EnvInt("CMAX", 2)
DMin == EnvInt("DMIN", -2)
DMax == EnvInt("DMAX", 2)
FIXED == EnvInt("FIXED", 1) = 1
VARIABLES sw, sh, dw, dh, r, dx, dy
vars == <<sw, sh, dw, dh, r, dx, dy>>
Init == /\ sw \in 0..MaxSize /\ sh \in 0..MaxSize /\ dw \in 0..MaxSize /\ dh \in 0..MaxSize
        /\ r \in {Box(a, b, c, d) : a \in CMin..CMax, b \in CMin..CMax, c \in CMin..CMax, d \in CMin..CMax}
        /\ dx \in DMin..DMax /\ dy \in DMin..DMax
Next == FALSE /\ UNCHANGED vars
Refines == LET i == IMap(sw, sh, dw, dh, r, dx, dy, FIXED)
           IN i.ok => i.m = PMap(sw, sh, dw, dh, r, dx, dy)
NoPanic == IMap(sw, sh, dw, dh, r, dx, dy, FIXED).ok
=============================================================================
