CONSTANT FIXED = FALSE
INIT MCInit
NEXT MCNext
INVARIANT Refines
CHECK_DEADLOCK FALSE
