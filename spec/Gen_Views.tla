------------------------------ MODULE Gen_Views ------------------------------
(* Scenario generator for C19: surface sizes 0..3 x 0..3, initial pixels    *)
(* from a boundary menu, write sequences of depth <= DEPTH alternating      *)
(* between the word view and the byte view, four constructors.              *)
EXTENDS Integers, Sequences, TLC, Json, Env
DEPTH == EnvInt("DEPTH", 2)
VARIABLES w, h, ctor, writes
vars == <<w, h, ctor, writes>>
Pix == << <<255, 255, 255, 255>>, <<255, 1, 2, 3>>, <<128, 128, 0, 64>>, <<0, 0, 0, 0>>, <<0, 200, 100, 50>>,
          <<1, 1, 0, 1>>, <<254, 253, 1, 127>>, <<77, 33, 77, 0>>, <<200, 0, 199, 200>> >>
Init == w \in 0..3 /\ h \in 0..3 /\ ctor \in {"new", "from_vec", "from_vec_short", "from_vec_long", "from_backing"} /\ writes = <<>>
N == w * h
Next == /\ Len(writes) < DEPTH /\ N > 0
        /\ \/ \E idx \in {0, N - 1}, p \in {2, 3, 5, 7} : writes' = Append(writes, <<"word", idx, Pix[p]>>)
           \/ \E k \in {0, 1, 2, 3, 4 * N - 1, 4 * N - 2}, v \in {0, 255, 129} : writes' = Append(writes, <<"byte", k, v>>)
        /\ UNCHANGED <<w, h, ctor>>
InitPix == [k \in 1..(IF ctor = "from_vec_short" THEN (IF N > 1 THEN N - 2 ELSE 0) ELSE IF ctor = "from_vec_long" THEN N + 2 ELSE N)
              |-> Pix[((k * 5 + w + 2 * h) % Len(Pix)) + 1]]
Scen == [id |-> ToString(<<"gv", w, h, ctor, writes>>), fam |-> "views", kind |-> "views", w |-> w, h |-> h, ctor |-> ctor,
         pixels |-> IF ctor = "new" THEN <<>> ELSE InitPix, writes |-> writes,
         solid |-> Pix[((w + 3 * h + Len(writes)) % Len(Pix)) + 1]]
Emit == PrintT(ToJson(Scen))
=============================================================================
