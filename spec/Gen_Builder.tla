----------------------------- MODULE Gen_Builder -----------------------------
(* Scenario generator for C20.  KIND = "builder": every PathBuilder call    *)
(* sequence of length <= LEN over a menu of calls with lattice arguments     *)
(* (negative and zero sizes included), each with a transform chosen by hash. *)
(* KIND = "arc": start direction x sweep (quarter turns + residual angle,    *)
(* either sign, beyond a full turn) x radius.                                *)
EXTENDS Integers, Sequences, TLC, Json, Env
KIND == EnvStr("KIND", "builder")
LEN == EnvInt("LEN", 3)
VARIABLES calls, a1, a2, a3, a4
vars == <<calls, a1, a2, a3, a4>>
Menu == { <<"move_to", 1, 2>>, <<"move_to", -3, 0>>, <<"line_to", 4, 4>>, <<"line_to", 0, -5>>,
          <<"quad_to", 3, 1, 6, 2>>, <<"cubic_to", 1, 1, 2, 5, 7, 3>>, <<"close">>,
          <<"rect", 1, 1, 4, 3>>, <<"rect", 2, 2, -3, -1>>, <<"rect", 0, 0, 0, 5>>, <<"rect", -4, 3, 2, -6>>,
          <<"arc", 6, 6, 4, <<1, 3>>, <<7, 2>> >>, <<"arc", 2, 2, 0, <<0, 1>>, <<-1, 1>> >> }
Transforms == << [m |-> <<1, 0, 0, 1, 0, 0>>, mden |-> 1], [m |-> <<1, 0, 0, 1, 3, -2>>, mden |-> 1],
                 [m |-> <<2, 0, 0, 2, 1, 1>>, mden |-> 4], [m |-> <<0, 1, -1, 0, 5, 0>>, mden |-> 1],
                 [m |-> <<-1, 0, 0, 1, 0, 0>>, mden |-> 1], [m |-> <<1, 1, 0, 1, 0, 0>>, mden |-> 2],
                 [m |-> <<3, 0, 0, 5, 0, 1>>, mden |-> 8], [m |-> <<0, 0, 0, 0, 1, 1>>, mden |-> 1],
                 [m |-> <<3, 4, -4, 3, 0, 0>>, mden |-> 5], [m |-> <<1, 2, 3, 4, 5, 6>>, mden |-> 3],
                 \* unit diagonal with off-diagonal terms (pure shears), unit m11 only, unit m22 only
                 [m |-> <<2, 0, 1, 2, 0, 0>>, mden |-> 2], [m |-> <<1, 3, 0, 1, 2, -1>>, mden |-> 1],
                 [m |-> <<1, 1, 1, 1, 0, 0>>, mden |-> 1], [m |-> <<1, 0, 0, 3, 1, 0>>, mden |-> 1],
                 [m |-> <<2, 1, 0, 1, 0, 0>>, mden |-> 1] >>
Dirs == << <<1, 0, 1>>, <<0, 1, 1>>, <<-1, 0, 1>>, <<0, -1, 1>>, <<4, 3, 5>>, <<3, 4, 5>>, <<-3, 4, 5>>, <<-4, -3, 5>>,
           <<12, -5, 13>>, <<5, 12, 13>>, <<-12, 5, 13>>, <<3, -4, 5>> >>
SweepDirs == << <<1, 0, 1>>, <<4, 3, 5>>, <<3, 4, 5>>, <<12, 5, 13>>, <<5, 12, 13>>, <<24, 7, 25>> >>
Radii == <<0, 5, 13, 39>>
Init == IF KIND = "builder" THEN calls = <<>> /\ a1 = 0 /\ a2 = 0 /\ a3 = 0 /\ a4 = 0
        ELSE calls = <<>> /\ a1 \in 1..Len(Dirs) /\ a2 \in 1..Len(SweepDirs) /\ a3 \in 0..5 /\ a4 \in 1..8
Next == /\ KIND = "builder" /\ Len(calls) < LEN
        /\ \E c \in Menu : calls' = Append(calls, c)
        /\ a1' = (a1 * 31 + Len(calls) * 7 + Len(ToString(calls'))) % 1009
        /\ UNCHANGED <<a2, a3, a4>>
BuilderScen == [id |-> ToString(<<"gb", a1, Len(calls)>>), fam |-> "builder", den |-> 2, calls |-> calls,
                transform |-> Transforms[(a1 % Len(Transforms)) + 1], set_evenodd |-> (a1 \div Len(Transforms)) % 3 = 0]
ArcScen ==
  LET sign == IF a4 % 2 = 0 THEN 1 ELSE -1
      r == Radii[((a4 - 1) \div 2) + 1]
  IN [id |-> ToString(<<"ga", a1, a2, a3, a4>>), fam |-> "arc", x |-> 3, y |-> -2, r |-> r,
      start_dir |-> Dirs[a1], sweep_dir |-> SweepDirs[a2], quarters |-> a3, sign |-> sign,
      pre_move |-> (a1 + a2 + a3) % 4 # 0]
Emit == PrintT(ToJson(IF KIND = "builder" THEN BuilderScen ELSE ArcScen))
=============================================================================
